#!/bin/sh
# Runs every patch in mutants/ against the check(s) named by its file-name
# prefix (cNN_...) and prints a markdown table.  Takes a while.
cd "$(dirname "$0")/.." || exit 2
echo "| mutant | pinned tests | check | verdict | first signatures |"
echo "|---|---|---|---|---|"
for f in mutants/*.diff; do
  b="$(basename "$f" .diff)"
  P="$(echo "$b" | cut -c1-3 | tr c C)"
  out="$(tools/mutant.sh "$f" "$P" 2>&1)"
  t="$(echo "$out" | grep pinned-tests | sed 's/pinned-tests: //')"
  c="$(echo "$out" | grep "^check" )"
  ex="$(echo "$c" | sed 's/.*exit=\([0-9]*\).*/\1/')"
  sg="$(echo "$c" | grep -o 'sig=[^ ]*' | head -2 | tr '\n' ' ')"
  v="MISSED"; [ "$ex" = "1" ] && v="detected"; [ "$ex" = "2" ] && v="harness-fault"
  echo "| $b | $t | $P | $v | $sg |"
done
