#!/bin/sh
# usage: tools/reseed.sh <seed-id> [CHECK...]   re-run checks against a filed seeded change (TIER env)
cd "$(dirname "$0")/.." || exit 2
id="$1"; shift
P="$(echo "$id" | cut -c1-3)"
[ $# -eq 0 ] && set -- "$P"
tools/mutant.sh "seeded/$id/patch.diff" "$@" 2>&1 | grep -E "^check|PATCH"
