#!/venv/bin/python
"""Confirm and file a seeded property-breaking change.

usage: tools/seeded.py <seed-id> <property> <patch.diff> <demo.py> \
           [--needs "what it needs to manifest"] [--checks C01,C06] [--tier quick]

Steps (all in a scratch copy of /repo outside /repo and /verif):
  1. demo exits 0 on the pristine tree
  2. the patch applies; the pinned test suite still passes (94 passed)
  3. demo exits non-zero with the patch
  4. the named checks (default: the property's own) are run with VERIF_SRC
     pointing at the patched copy; their verdicts are recorded
Writes /verif/seeded/<seed-id>/{patch.diff,demo.py,meta.json} when steps 1-3
hold (a change that fails them is not "realistic" and is not kept).
"""
import argparse
import json
import os
import re
import shutil
import subprocess
import sys
import tempfile

HERE = os.path.dirname(os.path.dirname(os.path.abspath(__file__)))
PY = '/venv/bin/python'


def sh(cmd, cwd=None, env=None, timeout=3600):
    e = dict(os.environ)
    e.update(env or {})
    p = subprocess.run(cmd, cwd=cwd, env=e, shell=isinstance(cmd, str),
                       stdout=subprocess.PIPE, stderr=subprocess.STDOUT,
                       timeout=timeout, text=True)
    return p.returncode, p.stdout


def main():
    ap = argparse.ArgumentParser()
    ap.add_argument('seed_id')
    ap.add_argument('property')
    ap.add_argument('patch')
    ap.add_argument('demo')
    ap.add_argument('--needs', default='')
    ap.add_argument('--checks', default=None)
    ap.add_argument('--tier', default='quick')
    ap.add_argument('--origin', default='sub-agent')
    a = ap.parse_args()
    checks = (a.checks or a.property).split(',')
    w = tempfile.mkdtemp(prefix='seeded.')
    meta = {'seed_id': a.seed_id, 'breaks_property': a.property,
            'needs_to_manifest': a.needs, 'origin': a.origin, 'ran': []}
    try:
        repo = os.path.join(w, 'repo')
        sh('rsync -a --exclude .git --exclude __pycache__ /repo/ %s/' % repo)
        env = {'PYTHONPATH': os.path.join(repo, 'src'),
               'PYTHONDONTWRITEBYTECODE': '1'}
        demo = os.path.join(repo, 'demo_seed.py')
        shutil.copy(a.demo, demo)
        rc, out = sh([PY, demo], cwd=repo, env=env, timeout=600)
        meta['ran'].append('demo on pristine tree: exit %d' % rc)
        if rc != 0:
            print('REJECT: demo fails on the pristine tree\n' + out[-800:])
            return 3
        rc, out = sh('patch -p1 -s < %s' % os.path.abspath(a.patch), cwd=repo)
        if rc != 0:
            print('REJECT: patch does not apply\n' + out[-800:])
            return 3
        rc, out = sh([PY, '-m', 'pytest', '-q', '-p', 'no:cacheprovider'],
                     cwd=repo, env=env, timeout=900)
        tail = out.strip().splitlines()[-1] if out.strip() else ''
        meta['ran'].append('pinned tests with patch: %s' % tail)
        if not re.search(r'\b94 passed\b', tail) or 'failed' in tail:
            print('REJECT: pinned tests do not pass: ' + tail)
            return 3
        rc, out = sh([PY, demo], cwd=repo, env=env, timeout=600)
        meta['ran'].append('demo with patch: exit %d' % rc)
        if rc == 0:
            print('REJECT: demo does not fail with the patch')
            return 3
        meta['demo_output_with_patch'] = out[-600:]
        verdicts = {}
        for c in checks:
            rc, out = sh([os.path.join(HERE, 'check'), c, '--tier', a.tier],
                         cwd=HERE,
                         env={'VERIF_SRC': os.path.join(repo, 'src'),
                              'VERIF_EVIDENCE_DIR': os.path.join(w, 'ev'),
                              'VERIF_REPLAY_DIR': os.path.join(w, 'rp')},
                         timeout=7200)
            sigs = re.findall(r'^  clause=\S+ sig=(\S+) cases=', out, re.M)
            viol = len(re.findall(r'^VIOLATION', out, re.M))
            verdicts[c] = {'exit': rc, 'violation_lines': viol,
                           'first_sigs': sigs[:5]}
            meta['ran'].append('./check %s --tier %s (VERIF_SRC=patched '
                               'copy): exit %d, %d VIOLATION line(s)'
                               % (c, a.tier, rc, viol))
        meta['checks'] = verdicts
        meta['detected_by'] = sorted(c for c, v in verdicts.items()
                                     if v['exit'] == 1)
        d = os.path.join(HERE, 'seeded', a.seed_id)
        os.makedirs(d, exist_ok=True)
        try:
            old = json.load(open(os.path.join(d, 'meta.json')))
        except Exception:
            old = None
        if old is not None:
            if old.get('first_verdict'):
                meta['first_verdict'] = old['first_verdict']
            elif not old.get('detected_by') and meta['detected_by']:
                meta['first_verdict'] = ('missed when filed; caught after '
                                         'the check was strengthened')
        shutil.copy(a.patch, os.path.join(d, 'patch.diff'))
        shutil.copy(a.demo, os.path.join(d, 'demo.py'))
        with open(os.path.join(d, 'meta.json'), 'w') as f:
            json.dump(meta, f, indent=1, sort_keys=True)
        print('%s: kept; detected by %s' % (a.seed_id,
                                            meta['detected_by'] or 'NOTHING'))
        for c, v in verdicts.items():
            print('   %s exit=%d sigs=%s' % (c, v['exit'], v['first_sigs']))
        return 0
    finally:
        shutil.rmtree(w, ignore_errors=True)


if __name__ == '__main__':
    sys.exit(main())
