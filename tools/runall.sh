#!/bin/sh
# usage: tools/runall.sh [quick|thorough]   (env VERIF_SEED)
cd "$(dirname "$0")/.." || exit 2
T="${1:-quick}"
rc=0
for i in 01 02 03 04 05 06 07 08 09 10 11 12 13 14 15 16 17 18 19 20; do
  out="$(./check C$i --tier "$T" 2>&1)"; r=$?
  echo "$out" | grep -E "^(OK|FAIL|HARNESS|VIOLATION)" | head -3
  [ $r -ne 0 ] && rc=1
done
exit $rc
