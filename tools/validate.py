#!/opt/veriftools/pyvenv/bin/python
"""Validates MANIFEST.json and every evidence file against the schemas."""
import glob
import json
import sys

import jsonschema

ok = True
m = json.load(open('/verif/MANIFEST.json'))
try:
    jsonschema.validate(m, json.load(open('/root/.vp/MANIFEST.schema.json')))
    print('MANIFEST ok:', len(m['checks']), 'checks,',
          len(m.get('not_applicable', [])), 'not applicable')
except jsonschema.ValidationError as e:
    ok = False
    print('MANIFEST INVALID', e.message)
es = json.load(open('/root/.vp/EVIDENCE.schema.json'))
claimed = {c['property_id']: c for c in m['checks']}
for f in sorted(glob.glob('/verif/evidence/*.json')):
    ev = json.load(open(f))
    try:
        jsonschema.validate(ev, es)
        c = claimed.get(ev['property_id'])
        note = ''
        if c and c['level_claimed']['category'] != ev['level']:
            note = ' LEVEL-MISMATCH'
            ok = False
        print(f, 'ok', ev['level'], ev['tier'], ev['coverage'].get(
            'evaluations'), ev['coverage'].get('distinct_nontrivial'), note)
    except jsonschema.ValidationError as e:
        ok = False
        print(f, 'INVALID', e.message)
sys.exit(0 if ok else 1)
