#!/bin/sh
# usage: tools/mutant.sh <patch.diff> <PROP> [<PROP>...]   (env TIER=quick|thorough)
# Copies /repo to a scratch dir outside /repo and /verif, applies the patch,
# runs the pinned test-suite there, then the given checks with VERIF_SRC
# pointing at the copy; removes the copy.  Evidence/replays go to scratch.
set -u
PATCH="$(readlink -f "$1")"; shift
W="$(mktemp -d /tmp/mutant.XXXXXX)"
trap 'rm -rf "$W"' EXIT
rsync -a --exclude .git --exclude '__pycache__' /repo/ "$W/repo/"
if ! (cd "$W/repo" && patch -p1 -s < "$PATCH"); then echo "PATCH-FAILED"; exit 3; fi
( cd "$W/repo" && PYTHONPATH="$W/repo/src" PYTHONDONTWRITEBYTECODE=1 /venv/bin/python -m pytest -q -p no:cacheprovider -x 2>&1 | tail -1 | sed 's/^/pinned-tests: /' )
cd "$(dirname "$0")/.."
for P in "$@"; do
  VERIF_SRC="$W/repo/src" VERIF_EVIDENCE_DIR="$W/ev" VERIF_REPLAY_DIR="$W/rp" ./check "$P" --tier "${TIER:-quick}" > "$W/out.$P" 2>&1
  rc=$?
  echo "check $P: exit=$rc $(grep -c '^VIOLATION' "$W/out.$P") violation sig(s): $(grep -o 'sig=[^ ]*' "$W/out.$P" | head -4 | tr '\n' ' ')"
  [ "${VERBOSE:-0}" = 1 ] && cat "$W/out.$P"
done
exit 0
