#!/usr/bin/env python3
"""Rewrites the two generated tables of DESIGN.md (between the BEGIN/END
markers) from mutants/TABLE.md and seeded/*/meta.json."""
import json
import os
import re

HERE = os.path.dirname(os.path.dirname(os.path.abspath(__file__)))


def seeded_table():
    rows = ['| id | breaks | needs to manifest | caught by | first signature |',
            '|---|---|---|---|---|']
    ids = sorted(os.listdir(os.path.join(HERE, 'seeded')),
                 key=lambda s: (s[:3], int(s.split('-')[1])))
    n = miss = 0
    for i in ids:
        m = json.load(open(os.path.join(HERE, 'seeded', i, 'meta.json')))
        sig = ''
        for c in m.get('detected_by', []):
            sig = (m['checks'][c].get('first_sigs') or [''])[0]
            break
        det = ', '.join(m.get('detected_by', [])) or '**missed**'
        n += 1
        miss += not m.get('detected_by')
        note = m.get('first_verdict')
        if note:
            det += ' (%s)' % note
        rows.append('| %s | %s | %s | %s | `%s` |' % (
            i, m['breaks_property'],
            (m.get('needs_to_manifest') or '').replace('|', '/')[:160],
            det, sig))
    rows.append('')
    rows.append('%d seeded changes, %d not detected by the quick tier of '
                'their checks.' % (n, miss))
    return '\n'.join(rows)


def main():
    p = os.path.join(HERE, 'DESIGN.md')
    s = open(p).read()
    mt = open(os.path.join(HERE, 'mutants', 'TABLE.md')).read().strip()
    for name, body in (('MUTANT_TABLE', mt), ('SEEDED_TABLE', seeded_table())):
        block = '<!-- BEGIN %s -->\n%s\n<!-- END %s -->' % (name, body, name)
        if name + '_PLACEHOLDER' in s:
            s = s.replace(name + '_PLACEHOLDER', block)
        else:
            s = re.sub(r'<!-- BEGIN %s -->.*?<!-- END %s -->' % (name, name),
                       lambda m: block, s, flags=re.S)
    open(p, 'w').write(s)


if __name__ == '__main__':
    main()
