#!/venv/bin/python
"""File the two changes (A, B) a sub-agent left in <outdir>/<PROP>/ as
seeded/<PROP>-<n>, <PROP>-<n+1>.  usage: tools/seed_wave.py <outdir> <PROP> <n> [--checks ...]"""
import json
import os
import subprocess
import sys

HERE = os.path.dirname(os.path.dirname(os.path.abspath(__file__)))
out, prop, n = sys.argv[1], sys.argv[2], int(sys.argv[3])
extra = sys.argv[4:]
d = os.path.join(out, prop)
try:
    notes = json.load(open(os.path.join(d, 'notes.json')))
except Exception:
    notes = {}
for k, letter in enumerate('AB'):
    patch = os.path.join(d, 'patch%s.diff' % letter)
    demo = os.path.join(d, 'demo%s.py' % letter)
    if not (os.path.exists(patch) and os.path.exists(demo)):
        print('%s %s: missing files' % (prop, letter))
        continue
    nt = notes.get(letter, {})
    needs = nt.get('needs_to_manifest', '') if isinstance(nt, dict) else ''
    subprocess.run([os.path.join(HERE, 'tools', 'seeded.py'),
                    '%s-%d' % (prop, n + k), prop, patch, demo,
                    '--needs', needs] + extra)
