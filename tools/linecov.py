#!/venv/bin/python
"""Which lines of the library does no check execute?  (gap finder, not a check)

usage: tools/linecov.py [quick|thorough] [C01 C02 ...]
Runs the named checks (default: all) with VERIF_LINECOV set, merges the
per-process line sets and prints, per source file, the executable lines that
no check reached (grouped into ranges, with the enclosing function)."""
import ast
import glob
import json
import os
import shutil
import subprocess
import sys
import tempfile

HERE = os.path.dirname(os.path.dirname(os.path.abspath(__file__)))
SRC = os.environ.get('VERIF_SRC', '/repo/src')
args = sys.argv[1:]
tier = 'quick'
if args and args[0] in ('quick', 'thorough'):
    tier = args.pop(0)
props = args or ['C%02d' % i for i in range(1, 21)]
out = tempfile.mkdtemp(prefix='linecov.')
try:
    for p in props:
        env = dict(os.environ, VERIF_LINECOV=os.path.join(out, p),
                   VERIF_EVIDENCE_DIR=os.path.join(out, 'ev'),
                   VERIF_REPLAY_DIR=os.path.join(out, 'rp'))
        r = subprocess.run([os.path.join(HERE, 'check'), p, '--tier', tier],
                           env=env, stdout=subprocess.PIPE,
                           stderr=subprocess.STDOUT, text=True)
        print(r.stdout.strip().splitlines()[-1], file=sys.stderr)
    seen = {}
    for p in props:
        for f in glob.glob(os.path.join(out, p, 'lines.*.json')):
            for fn, line in json.load(open(f)):
                seen.setdefault(fn, {}).setdefault(line, set()).add(p)
    files = sorted(f for f in glob.glob(SRC + '/DocumentTemplate/*.py') +
                   glob.glob(SRC + '/TreeDisplay/*.py') if 'test' not in os.path.basename(f))
    tot = cov = 0
    for path in files:
        rel = path[len(SRC) + 1:]
        code = compile(open(path).read(), path, 'exec')
        lines = {}

        def walk(c, name):
            for _, _, ln in c.co_lines():
                if ln:
                    lines.setdefault(ln, name)
            for k in c.co_consts:
                if hasattr(k, 'co_lines'):
                    walk(k, (name + '.' if name else '') + k.co_name)
        walk(code, '')
        # docstring-only / def lines are executed at import: keep them
        s = seen.get(rel, {})
        miss = sorted(l for l in lines if l not in s)
        tot += len(lines)
        cov += len(lines) - len(miss)
        if not miss:
            continue
        print('%s: %d of %d lines never executed' % (rel, len(miss), len(lines)))
        src = open(path).read().splitlines()
        for l in miss:
            print('   %4d [%s] %s' % (l, lines[l], src[l - 1].strip()[:90]))
    print('TOTAL %d / %d executable lines executed by %s' % (cov, tot, ','.join(props)))
finally:
    shutil.rmtree(out, ignore_errors=True)
