#!/bin/sh
# usage: tools/mutation_scan_all.sh [stride] [offset]   (sequential; writes /tmp/mutscan/*.jsonl)
cd "$(dirname "$0")/.." || exit 2
S="${1:-10}"; O="${2:-0}"
mkdir -p /tmp/mutscan
run() { f="$1"; shift; tools/mutation_scan.py "$f" --props "$1" --stride "$S" --offset "$O" --out "/tmp/mutscan/$(basename "$f").jsonl"; }
run src/DocumentTemplate/DT_If.py C09,C07,C06,C01,C02,C08
run src/DocumentTemplate/DT_Let.py C02,C08,C06,C07
run src/DocumentTemplate/DT_With.py C02,C05,C08,C07,C06
run src/DocumentTemplate/DT_Try.py C14,C19,C08,C06
run src/DocumentTemplate/DT_Raise.py C14,C06,C08
run src/DocumentTemplate/DT_Return.py C14,C06
run src/DocumentTemplate/ustr.py C19
run src/DocumentTemplate/html_quote.py C03,C19
run src/DocumentTemplate/security.py C05
run src/DocumentTemplate/DT_Var.py C15,C03,C04,C19,C05,C06
run src/DocumentTemplate/_DocumentTemplate.py C02,C09,C03,C19,C10,C08,C05,C04
run src/DocumentTemplate/DT_Util.py C02,C09,C06,C10,C12,C05,C07
run src/DocumentTemplate/DT_HTML.py C07,C06,C01
run src/DocumentTemplate/DT_String.py C02,C01,C06,C07,C17,C08
run src/DocumentTemplate/DT_InSV.py C10,C11,C16,C12,C05
run src/DocumentTemplate/DT_In.py C10,C13,C11,C12,C08,C17,C05
run src/TreeDisplay/TreeTag.py C20,C08,C05,C19
