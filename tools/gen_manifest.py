#!/venv/bin/python
"""Regenerates MANIFEST.json from the table below (kept valid at all times)."""
import json
import os

HERE = os.path.dirname(os.path.dirname(os.path.abspath(__file__)))

ALL = ['C%02d' % i for i in range(1, 21)]

# property -> (category, technique, text, note, design_ref)
CHECKS = {
    'C11': (
        'model_checking',
        'exhaustive grid enumeration + explicit-state walk of the batch '
        'navigation graph on the real renderer',
        'Every tuple of the 5-dimensional batch parameter grid (per tier) is '
        'executed on the real code (opt(), rendered dtml-in with literals and '
        'through variables) and judged against a reference window model; the '
        'navigation graph (windows = states, printed next/previous start '
        'numbers = transitions) is walked to its end for every '
        '(length,size,orphan,overlap<size).',
        'Trusted: the 15-line reference window model in dtmc/props/c11.py; '
        'integer elements in a list; the exact window is pinned only for the '
        'start+size form as the statement says.',
        'DESIGN.md section 4, C11'),
    'C09': (
        'model_checking',
        'exhaustive enumeration of conditional chains; output and ordered '
        'call trace compared with a reference interpreter for every case',
        'All if/elif/else chains up to 4 (quick) / 5 (thorough) conditions '
        'over four condition kinds, every truth assignment, else/no else and '
        'every re-reference form, plus unless and call, are rendered on the '
        'real code; text and the ordered log of invoked namespace callables '
        'must equal the trace predicted by the reference interpreter '
        '(dtmc/refsem.py).',
        'Trusted: the reference interpreter (written from the statement, '
        'imports nothing from DocumentTemplate); logging callables are the '
        'only observed side-effect channel.',
        'DESIGN.md section 4, C09'),
}

NOT_YET = 'check not built yet in this revision of /verif (work in progress)'


def main():
    checks = []
    for pid in ALL:
        if pid not in CHECKS:
            continue
        cat, tech, text, note, ref = CHECKS[pid]
        checks.append({
            'property_id': pid,
            'quick_cmd': './check %s --tier quick' % pid,
            'thorough_cmd': './check %s --tier thorough' % pid,
            'evidence_file': 'evidence/%s.json' % pid,
            'replay_cmd_template': './check %s --replay {path}' % pid,
            'engine': 'dtmc',
            'level_claimed': {'category': cat, 'text': text,
                              'design_ref': ref},
            'level_note': note,
            'technique': tech,
        })
    m = {
        'version': 1,
        'setup_cmd': 'sh -c \'test -x ./check && /venv/bin/python -c '
                     '"import sys; sys.path.insert(0, \\"/repo/src\\"); '
                     'import DocumentTemplate, AccessControl"\'',
        'hooks': {
            'guard': 'DOCUMENTTEMPLATE_VERIF',
            'enable': 'no source hooks are needed: every seam is reachable '
                      'from outside (namespace callables, security policy, '
                      'COOKLOCK attribute, sys.settrace); ./check exports '
                      'DOCUMENTTEMPLATE_VERIF=1 anyway',
            'baseline_off_cmd': 'cd /repo && /venv/bin/python -m pytest -ra '
                                '-q -p no:cacheprovider --timeout=900 '
                                '--continue-on-collection-errors',
            'source_commits': [],
            'add_only': True,
        },
        'engines': [{
            'name': 'dtmc',
            'path': 'dtmc/',
            'serves_properties': sorted(CHECKS),
            'kind_free_text': 'hand-written bounded exhaustive explorer for '
                              'Python: enumerates a finite case space '
                              'completely, executes every case on the working '
                              'tree of /repo, judges it against reference '
                              'models / relational invariants',
        }],
        'checks': checks,
        'notes': 'All checks import DocumentTemplate from /repo/src (or '
                 '$VERIF_SRC) at run time; nothing is built or cached. '
                 'known_findings.json lists genuine defects (known / fixed).',
        'not_applicable': [{'property_id': p, 'reason': NOT_YET}
                           for p in ALL if p not in CHECKS],
    }
    with open(os.path.join(HERE, 'MANIFEST.json'), 'w') as f:
        json.dump(m, f, indent=1)
        f.write('\n')


if __name__ == '__main__':
    main()
