#!/venv/bin/python
"""Regenerates MANIFEST.json from the drivers' own MANIFEST tables (kept
valid at all times).  A property with a driver module dtmc/props/cNN.py that
defines MANIFEST is claimed; every other property is listed under
not_applicable with the reason given in NOT_CLAIMED below."""
import importlib
import json
import os
import sys

HERE = os.path.dirname(os.path.dirname(os.path.abspath(__file__)))
sys.path.insert(0, HERE)
sys.path.insert(0, os.environ.get('VERIF_SRC', '/repo/src'))

ALL = ['C%02d' % i for i in range(1, 21)]

NOT_YET = 'check not built yet in this revision of /verif (work in progress)'
NOT_CLAIMED = {}


def main():
    checks = []
    claimed = []
    for pid in ALL:
        path = os.path.join(HERE, 'dtmc', 'props', pid.lower() + '.py')
        if not os.path.exists(path):
            continue
        mod = importlib.import_module('dtmc.props.' + pid.lower())
        m = getattr(mod, 'MANIFEST', None)
        if not m:
            continue
        claimed.append(pid)
        entry = {
            'property_id': pid,
            'quick_cmd': './check %s --tier quick' % pid,
            'thorough_cmd': './check %s --tier thorough' % pid,
            'evidence_file': 'evidence/%s.json' % pid,
            'replay_cmd_template': './check %s --replay {path}' % pid,
            'engine': 'dtmc',
            'level_claimed': {'category': mod.LEVEL, 'text': m['text'] + (
                                  ' ' + m['more'] if m.get('more') else ''),
                              'design_ref': 'DESIGN.md section 4, %s' % pid},
            'level_note': m['note'],
            'technique': m['technique'],
        }
        checks.append(entry)
    man = {
        'version': 1,
        'setup_cmd': 'sh -c \'test -x ./check && /venv/bin/python -c '
                     '"import sys; sys.path.insert(0, \\"/repo/src\\"); '
                     'import DocumentTemplate, AccessControl"\'',
        'hooks': {
            'guard': 'DOCUMENTTEMPLATE_VERIF',
            'enable': 'no source hooks are needed: every seam is reachable '
                      'from outside (namespace callables, security policy, '
                      'COOKLOCK attribute, sys.settrace); ./check exports '
                      'DOCUMENTTEMPLATE_VERIF=1 anyway',
            'baseline_off_cmd': 'cd /repo && /venv/bin/python -m pytest -ra '
                                '-q -p no:cacheprovider --timeout=900 '
                                '--continue-on-collection-errors',
            'source_commits': [],
            'add_only': True,
        },
        'engines': [{
            'name': 'dtmc',
            'path': 'dtmc/',
            'serves_properties': claimed,
            'kind_free_text': 'hand-written bounded exhaustive explorer for '
                              'Python: enumerates a finite case space '
                              'completely, executes every case on the working '
                              'tree of /repo, judges it against reference '
                              'models / relational invariants',
        }],
        'checks': checks,
        'notes': 'All checks import DocumentTemplate from /repo/src (or '
                 '$VERIF_SRC) at run time; nothing is built or cached. '
                 'known_findings.json lists genuine defects (known / fixed).',
        'not_applicable': [{'property_id': p,
                            'reason': NOT_CLAIMED.get(p, NOT_YET)}
                           for p in ALL if p not in claimed],
    }
    with open(os.path.join(HERE, 'MANIFEST.json'), 'w') as f:
        json.dump(man, f, indent=1)
        f.write('\n')
    print('claimed:', ' '.join(claimed))


if __name__ == '__main__':
    main()
