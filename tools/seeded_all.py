#!/venv/bin/python
"""Re-runs every kept seeded change (seeded/<id>/) against its checks and
refreshes meta.json; prints a markdown table.  usage: tools/seeded_all.py [ids...]"""
import json
import os
import subprocess
import sys

HERE = os.path.dirname(os.path.dirname(os.path.abspath(__file__)))
ids = sys.argv[1:] or sorted(os.listdir(os.path.join(HERE, 'seeded')))
rows = []
for i in ids:
    d = os.path.join(HERE, 'seeded', i)
    meta = json.load(open(os.path.join(d, 'meta.json')))
    checks = ','.join(sorted(meta.get('checks', {meta['breaks_property']: 1})))
    tmp_patch = '/tmp/seed_%s.diff' % i
    tmp_demo = '/tmp/seed_%s.py' % i
    import shutil
    shutil.copy(os.path.join(d, 'patch.diff'), tmp_patch)
    shutil.copy(os.path.join(d, 'demo.py'), tmp_demo)
    subprocess.run([os.path.join(HERE, 'tools', 'seeded.py'), i,
                    meta['breaks_property'], tmp_patch, tmp_demo,
                    '--needs', meta.get('needs_to_manifest', ''),
                    '--checks', checks], stdout=subprocess.DEVNULL)
    os.remove(tmp_patch)
    os.remove(tmp_demo)
    meta = json.load(open(os.path.join(d, 'meta.json')))
    sig = ''
    for c in meta['detected_by']:
        sig = (meta['checks'][c]['first_sigs'] or [''])[0]
        break
    rows.append('| %s | %s | %s | %s | %s |' % (
        i, meta['breaks_property'], meta.get('needs_to_manifest', ''),
        ', '.join(meta['detected_by']) or '**missed**', sig))
    print(rows[-1], flush=True)
