#!/venv/bin/python
"""usage: mkmutant.py <name> <file relative to /repo> <<< 'OLD\n=====\nNEW'
Writes mutants/<name>.diff replacing the unique occurrence of OLD by NEW."""
import difflib
import os
import sys

name, rel = sys.argv[1], sys.argv[2]
old, new = sys.stdin.read().split('\n=====\n')
new = new.rstrip('\n') + '\n' if new.strip() else ''
old = old.rstrip('\n') + '\n'
path = os.path.join('/repo', rel)
src = open(path).read()
if src.count(old) != 1:
    sys.exit('OLD occurs %d times in %s' % (src.count(old), rel))
dst = src.replace(old, new)
diff = difflib.unified_diff(src.splitlines(True), dst.splitlines(True),
                            'a/' + rel, 'b/' + rel)
out = os.path.join(os.path.dirname(os.path.dirname(os.path.abspath(__file__))),
                   'mutants', name + '.diff')
open(out, 'w').write(''.join(diff))
print('wrote', out)
