#!/venv/bin/python
"""Mechanical mutation scan (an evaluation aid for the harness, not a check).

Generates first-order mutants of one source file of /repo with classic
operators (comparison flips, and/or, small-constant +-1, dropped `not`,
statement deletion, +/-), keeps those that still pass the pinned test-suite,
and runs the quick tier of the given checks against each (VERIF_SRC pointing
at a scratch copy; stops at the first check that reports a violation).

usage: tools/mutation_scan.py src/DocumentTemplate/DT_In.py \
           --props C10,C11,C13 [--stride 3] [--max 40] [--out FILE.jsonl]

Survivors are listed with their diff: each one is either an equivalent
mutant, a change outside the twenty properties, or a gap in a check.
"""
import argparse
import ast
import copy
import difflib
import json
import os
import shutil
import subprocess
import sys
import tempfile
import time

HERE = os.path.dirname(os.path.dirname(os.path.abspath(__file__)))
PY = '/venv/bin/python'

CMP = {ast.Lt: ast.LtE, ast.LtE: ast.Lt, ast.Gt: ast.GtE, ast.GtE: ast.Gt,
       ast.Eq: ast.NotEq, ast.NotEq: ast.Eq, ast.Is: ast.IsNot,
       ast.IsNot: ast.Is, ast.In: ast.NotIn, ast.NotIn: ast.In}


class Collector(ast.NodeVisitor):
    """enumerates mutation sites as (kind, node-index, detail)"""

    def __init__(self):
        self.sites = []
        self.idx = 0
        self.func = []

    def generic_visit(self, node):
        node._mid = self.idx
        self.idx += 1
        if isinstance(node, (ast.FunctionDef, ast.ClassDef)):
            self.func.append(node.name)
        where = '.'.join(self.func)
        if isinstance(node, ast.Compare):
            for k, op in enumerate(node.ops):
                if type(op) in CMP:
                    self.sites.append(('cmp', node._mid, k, where))
        elif isinstance(node, ast.BoolOp):
            self.sites.append(('bool', node._mid, 0, where))
        elif isinstance(node, ast.Constant) and type(node.value) is int \
                and -2 <= node.value <= 10:
            self.sites.append(('const+1', node._mid, 0, where))
            if node.value > 0:
                self.sites.append(('const-1', node._mid, 0, where))
        elif isinstance(node, ast.UnaryOp) and isinstance(node.op, ast.Not):
            self.sites.append(('not', node._mid, 0, where))
        elif isinstance(node, ast.BinOp) and isinstance(
                node.op, (ast.Add, ast.Sub)):
            self.sites.append(('addsub', node._mid, 0, where))
        elif isinstance(node, (ast.Assign, ast.AugAssign)) or (
                isinstance(node, ast.Expr) and
                isinstance(node.value, ast.Call)):
            self.sites.append(('delete', node._mid, 0, where))
        ast.NodeVisitor.generic_visit(self, node)
        if isinstance(node, (ast.FunctionDef, ast.ClassDef)):
            self.func.pop()


class Mutator(ast.NodeTransformer):
    def __init__(self, site):
        self.kind, self.mid, self.k, _ = site
        self.idx = 0

    def generic_visit(self, node):
        mid = self.idx
        self.idx += 1
        hit = mid == self.mid
        node = ast.NodeTransformer.generic_visit(self, node)
        if not hit:
            return node
        if self.kind == 'cmp':
            node.ops[self.k] = CMP[type(node.ops[self.k])]()
        elif self.kind == 'bool':
            node.op = ast.Or() if isinstance(node.op, ast.And) else ast.And()
        elif self.kind == 'const+1':
            node.value = node.value + 1
        elif self.kind == 'const-1':
            node.value = node.value - 1
        elif self.kind == 'not':
            return node.operand
        elif self.kind == 'addsub':
            node.op = ast.Sub() if isinstance(node.op, ast.Add) else ast.Add()
        elif self.kind == 'delete':
            return ast.copy_location(ast.Pass(), node)
        return node


def sh(cmd, cwd=None, env=None, timeout=3600):
    e = dict(os.environ)
    e.update(env or {})
    try:
        p = subprocess.run(cmd, cwd=cwd, env=e, stdout=subprocess.PIPE,
                           stderr=subprocess.STDOUT, timeout=timeout,
                           text=True)
    except subprocess.TimeoutExpired:
        return 124, 'timeout'
    return p.returncode, p.stdout


def main():
    ap = argparse.ArgumentParser()
    ap.add_argument('file')
    ap.add_argument('--props', required=True)
    ap.add_argument('--stride', type=int, default=1)
    ap.add_argument('--offset', type=int, default=0)
    ap.add_argument('--max', type=int, default=1000)
    ap.add_argument('--funcs', default='')
    ap.add_argument('--out', default=None)
    a = ap.parse_args()
    props = a.props.split(',')
    src_path = os.path.join('/repo', a.file)
    source = open(src_path).read()
    tree = ast.parse(source)
    baseline = ast.unparse(tree)
    col = Collector()
    col.visit(tree)
    sites = col.sites
    if a.funcs:
        want = a.funcs.split(',')
        sites = [s for s in sites if any(w in s[3] for w in want)]
    sites = sites[a.offset::a.stride][:a.max]
    out = a.out or '/tmp/mutscan_%s.jsonl' % os.path.basename(a.file)
    w = tempfile.mkdtemp(prefix='mutscan.')
    killed = survived = untested = 0
    try:
        repo = os.path.join(w, 'repo')
        sh(['rsync', '-a', '--exclude', '.git', '--exclude', '__pycache__',
            '/repo/', repo + '/'])
        target = os.path.join(repo, a.file)
        env = {'PYTHONPATH': os.path.join(repo, 'src'),
               'PYTHONDONTWRITEBYTECODE': '1'}
        with open(out, 'a') as log:
            for site in sites:
                t = copy.deepcopy(tree)
                t = Mutator(site).visit(t)
                ast.fix_missing_locations(t)
                try:
                    mutated = ast.unparse(t)
                    compile(mutated, a.file, 'exec')
                except Exception:
                    continue
                if mutated == baseline:
                    continue
                diff = ''.join(difflib.unified_diff(
                    baseline.splitlines(1), mutated.splitlines(1), n=1))
                with open(target, 'w') as f:
                    f.write(mutated)
                t0 = time.time()
                rc, o = sh([PY, '-m', 'pytest', '-q', '-x', '-p',
                            'no:cacheprovider'], cwd=repo, env=env,
                           timeout=180)
                rec = {'file': a.file, 'site': list(site), 'diff': diff}
                if rc != 0:
                    rec['verdict'] = 'pinned-tests-fail'
                    untested += 1
                else:
                    rec['verdict'] = 'SURVIVED'
                    for p in props:
                        rc, o = sh([os.path.join(HERE, 'check'), p, '--tier',
                                    'quick'], cwd=HERE, env={
                            'VERIF_SRC': os.path.join(repo, 'src'),
                            'VERIF_EVIDENCE_DIR': os.path.join(w, 'ev'),
                            'VERIF_REPLAY_DIR': os.path.join(w, 'rp')},
                            timeout=3600)
                        if rc == 1:
                            rec['verdict'] = 'killed:' + p
                            break
                        if rc != 0:
                            rec['verdict'] = 'harness-exit-%d:%s' % (rc, p)
                            rec['output'] = o[-400:]
                            break
                    if rec['verdict'] == 'SURVIVED':
                        survived += 1
                    else:
                        killed += 1
                rec['seconds'] = round(time.time() - t0, 1)
                log.write(json.dumps(rec) + '\n')
                log.flush()
                print('%-22s %-10s %-40s %5.0fs' % (
                    rec['verdict'], site[0], site[3][:40], rec['seconds']),
                    flush=True)
    finally:
        shutil.rmtree(w, ignore_errors=True)
    print('killed=%d survived=%d not-realistic(pinned tests fail)=%d -> %s'
          % (killed, survived, untested, out))


if __name__ == '__main__':
    sys.exit(main())
