"""Symbolic namespace values -> live objects (fresh for every execution).

value spec (JSON-able):
    ["lit", v]                       v: str / int / float / None / bool / list
    ["bytes", latin1-text]           bytes value
    ["probe", id, retspec]           logging callable; returns built(retspec)
    ["raiser", id, excname, msg]     logging callable that raises
    ["probeseq", id, [retspec...]]   logging callable; k-th call returns the
                                     k-th value (the last one repeats)
    ["probef", id]                   logging callable f(*args) -> args[0]
    ["obj", {attr: spec}]            plain object with attributes
    ["fobj", {attr: spec}]           the same, but falsy (len() == 0)
    ["map", {key: spec}]             dict
    ["seq", kind, [spec...]]         kind: list | tuple | iter | gen | lazy
    ["pair", spec, spec]             2-tuple
    ["tmpl", nodes, {name: spec}]    sub-template with its own defaults
    ["exc", excname]                 exception class (uncalled use only)

A World owns the call log, the global invocation counter and the fault plan
(ordinal -> ["raise", excname] | ["return", value]).
"""

import builtins


class HA(Exception):
    pass


class HB(HA):
    pass


class HC(HB):
    pass


class HX(Exception):
    pass


class HM(HX, HB):
    """multiple inheritance: HA is reachable through the second base only"""


class HM2(HB, HX):
    """... and here through the first base only"""


# a different class that is also *named* HB but derives from HX
HBfake = type('HB', (HX,), {'__module__': __name__})


# application classes that merely share their *name* with a builtin / a
# zExceptions class (handlers match by class name along the bases)
KeyErrorFake = type('KeyError', (HX,), {'__module__': __name__})
NotFoundFake = type('NotFound', (HB,), {'__module__': __name__})


# unrelated classes whose names merely contain a handler name
ZHB = type('ZHB', (Exception,), {'__module__': __name__})
HBZ = type('HBZ', (Exception,), {'__module__': __name__})


class HQ(BaseException):
    """an application exception outside the Exception hierarchy (like
    KeyboardInterrupt / SystemExit): no handler names it, cleanup still
    runs"""


class PullBudget(BaseException):
    """A supplier was pulled beyond its budget (unbounded consumer)."""


HARNESS_EXC = {'HA': HA, 'HB': HB, 'HC': HC, 'HX': HX, 'HM': HM, 'HM2': HM2,
               'HB~': HBfake, 'KeyError~': KeyErrorFake,
               'NotFound~': NotFoundFake, 'ZHB': ZHB, 'HBZ': HBZ, 'HQ': HQ}


def exc_class(name):
    if name in HARNESS_EXC:
        return HARNESS_EXC[name]
    return getattr(builtins, name)


class Obj:
    """Plain attribute bag."""

    def __init__(self, attrs):
        self.__dict__.update(attrs)

    def __repr__(self):
        return 'Obj(%s)' % ','.join(
            '%s=%r' % kv for kv in sorted(self.__dict__.items())
            if not kv[0].startswith('_'))

    __str__ = __repr__


class FalsyObj(Obj):
    """attribute bag whose truth value is False (an empty container that
    still carries attributes)"""

    def __len__(self):
        return 0


class LazySeq:
    """__getitem__/__len__ sequence that logs every access."""

    def __init__(self, items, world, ident):
        self._items = items
        self._world = world
        self._ident = ident

    def __getitem__(self, i):
        self._world.log.append(['getitem', self._ident, i])
        return self._items[i]

    def __len__(self):
        self._world.log.append(['len', self._ident])
        return len(self._items)


class Probe:
    """Logging callable with a stable text form."""

    def __init__(self, world, ident, ret, seq=False):
        self._world, self._ident, self._ret = world, ident, ret
        self._seq, self._n = seq, 0

    def __call__(self):
        self._world.point(self._ident)
        if self._seq:
            k = min(self._n, len(self._ret) - 1)
            self._n += 1
            return self._world.build(self._ret[k])
        return self._world.build(self._ret)

    def __repr__(self):
        return '<probe %s>' % (self._ident,)

    __str__ = __repr__


class RendersItself:
    """an object that is callable *and* renders itself when given the
    namespace (a DTML method, a script): name lookup in a tag must use the
    second protocol; an expression gets the object itself"""

    def __init__(self, world, ident, ret=None):
        self._world, self._ident, self._ret = world, ident, ret

    def __render_with_namespace__(self, md):
        self._world.point(self._ident)
        if self._ret is not None:
            return self._world.build(self._ret)
        try:
            who = md['who']
        except KeyError:
            who = '-'
        return '%s~%s' % (self._ident, who)

    def __call__(self, *args):
        self._world.point('%s:called' % (self._ident,))
        return '%s:called' % (self._ident,)

    def __repr__(self):
        return '<rwn %s>' % (self._ident,)

    __str__ = __repr__


class World:
    def __init__(self, mode, syntax='dtml', style=None, faults=None,
                 template_factory=None):
        self.mode = mode            # 'impl' | 'ref'
        self.syntax = syntax
        self.style = style
        self.log = []
        self.ordinal = 0
        self.faults = faults or {}
        self.template_factory = template_factory
        self.seq_counter = 0

    # -- fault injection: called by every probe before it does anything
    def point(self, ident):
        self.ordinal += 1
        k = self.ordinal
        self.log.append(['call', ident])
        f = self.faults.get(k) or self.faults.get(str(k))
        if f:
            if f[0] == 'raise':
                raise exc_class(f[1])('fault@%d' % k)
            if f[0] == 'return':
                self.raise_return(f[1])

    def raise_return(self, value):
        if self.mode == 'impl':
            from DocumentTemplate.DT_Return import DTReturn
            raise DTReturn(value)
        from .refsem import RefReturn
        raise RefReturn(value)

    def build(self, spec):
        k = spec[0]
        if k == 'lit':
            return spec[1]
        if k == 'bytes':
            return spec[1].encode('latin-1')
        if k == 'probe':
            ident, ret = spec[1], spec[2]
            world = self

            return Probe(world, ident, ret)
        if k == 'rwn':
            return RendersItself(self, spec[1],
                                 spec[2] if len(spec) > 2 else None)
        if k == 'probeseq':
            return Probe(self, spec[1], spec[2], seq=True)
        if k == 'probef':
            # logging callable with arguments; returns its first argument
            ident = spec[1]
            world = self

            def probef(*args):
                world.point(ident)
                return args[0] if args else None
            return probef
        if k == 'raiser':
            ident, en, msg = spec[1], spec[2], spec[3]
            world = self

            def raiser():
                world.point(ident)
                raise exc_class(en)(msg)
            return raiser
        if k == 'obj':
            return Obj({a: self.build(v) for a, v in spec[1].items()})
        if k == 'fobj':
            return FalsyObj({a: self.build(v) for a, v in spec[1].items()})
        if k == 'map':
            return {a: self.build(v) for a, v in spec[1].items()}
        if k == 'pair':
            return (self.build(spec[1]), self.build(spec[2]))
        if k == 'seq':
            kind = spec[1]
            items = [self.build(v) for v in spec[2]]
            if kind == 'list':
                return items
            if kind == 'tuple':
                return tuple(items)
            if kind == 'iter':
                return iter(items)
            if kind == 'gen':
                return (x for x in items)
            if kind == 'lazy':
                self.seq_counter += 1
                return LazySeq(items, self, self.seq_counter)
            raise ValueError(kind)
        if k == 'tmpl':
            nodes, defaults = spec[1], spec[2]
            d = {a: self.build(v) for a, v in defaults.items()}
            if self.mode == 'impl':
                from .ast import template_class
                from .ast import to_source
                cls = template_class(self.syntax)
                t = cls(to_source(nodes, self.syntax, self.style), **d)
                if len(spec) > 3:
                    # values set on the template with var()
                    t.var(**{a: self.build(v) for a, v in spec[3].items()})
                return t
            from .refsem import RefTemplate
            if len(spec) > 3:
                d = dict(d, **{a: self.build(v) for a, v in spec[3].items()})
            return RefTemplate(nodes, d)
        if k == 'exc':
            return exc_class(spec[1])
        raise ValueError('bad value spec %r' % (spec,))

    def build_ns(self, ns):
        return {k: self.build(v) for k, v in ns.items()}
