"""A table of small templates ("features"), one per tag / option whose
rendering depends on the namespace in some way a per-tag or module-level memo
could capture, each with three namespaces that differ in exactly that way
(a name present / absent, a value of another type, another comparison
function, the same text tainted / plain / as bytes, ...).

Used by C17 (histories of renders of one template and of different
templates in one process must equal the render alone in a pristine process).
Namespaces are rebuilt from the builder for every call, so executions never
alias data.  Every rendering is deterministic text (no object addresses).
"""

import datetime
import decimal


class Obj:
    def __init__(self, **kw):
        self.__dict__.update(kw)

    def __str__(self):
        return 'Obj(%s)' % ','.join(
            '%s=%s' % (k, v) for k, v in sorted(self.__dict__.items())
            if not callable(v))

    def meth(self):
        return 'meth:%s' % getattr(self, 'k', '?')


class Fn:
    def __init__(self, r):
        self.r = r

    def __call__(self):
        return self.r

    def __str__(self):
        return 'Fn(%s)' % self.r


class Node:
    def __init__(self, ident, kids=()):
        self.id = ident
        self._kids = list(kids)

    def tpValues(self):
        return self._kids

    def tpId(self):
        return self.id

    def __str__(self):
        return 'N' + self.id


class Resp:
    def __init__(self):
        self.cookies = {}

    def setCookie(self, k, v, **kw):
        self.cookies[k] = v


class ErrA(Exception):
    pass


class ErrB(ErrA):
    pass


class ErrX(Exception):
    pass


def T(s):
    from AccessControl.tainted import TaintedString
    return TaintedString(s)


def sub(src, **kw):
    from DocumentTemplate import HTML
    return HTML(src, **kw)


def raiser(cls, msg='boom'):
    def r():
        raise cls(msg)
    return r


def objs(*ks):
    return [Obj(k=k, j=i) for i, k in enumerate(ks)]


def maps(*ks):
    return [{'k': k, 'j': i} for i, k in enumerate(ks)]


def by_len(a, b):
    return (len(a) > len(b)) - (len(a) < len(b))


def by_alpha(a, b):
    return (a > b) - (a < b)


def by_alpha_rev(a, b):
    return (a < b) - (a > b)


def tree_ns(expanded):
    root = Node('r', [Node('a', [Node('c'), Node('d')]), Node('b', [Node('e')])])
    req = {}
    if expanded:
        req['tree-e'] = expanded
    return dict(root=root, REQUEST=req, RESPONSE=Resp(), URL='u')


D = datetime.date
DEC = decimal.Decimal

def app_error(base):
    return type('AppError', (base,), {})


# (name, source, [ns builders] [, constructor options: cls / encoding])
FEATURES = [
    ('var-plain', 'a<dtml-var x>b',
     [lambda: dict(x='v<1>'), lambda: dict(x=T('v<1>')),
      lambda: dict(x=b'v<1>')]),
    ('var-types', '[<dtml-var x>|<dtml-var x>]',
     [lambda: dict(x=7), lambda: dict(x=None), lambda: dict(x=[1, 'a'])]),
    ('var-callable', '[<dtml-var x>]',
     [lambda: dict(x=lambda: 'called'), lambda: dict(x='plain'),
      lambda: dict(x=sub('sub(<dtml-var y>)'), y='Y')]),
    ('var-missing', '[<dtml-var x missing="M">|<dtml-var y null="N">]',
     [lambda: dict(y=0), lambda: dict(x='X', y=None), lambda: dict(x='', y='')]),
    ('entity', '[&dtml-x;|&dtml.url_quote-x;|&dtml.upper.html_quote-x;]',
     [lambda: dict(x='a b<c'), lambda: dict(x=T('a b<c')),
      lambda: dict(x=b'a b<c')]),
    ('hq', '[<dtml-var x html_quote>|<dtml-var x html_quote size=4>]',
     [lambda: dict(x='a"b\'c&<'), lambda: dict(x=T('a"b\'c&<')),
      lambda: dict(x=b'a"b\'c&<')]),
    ('commas', '[<dtml-var x thousands_commas>|<dtml-var x fmt=comma-numeric>]',
     [lambda: dict(x='1234567<8'), lambda: dict(x=T('1234567<8')),
      lambda: dict(x=1234567)]),
    ('urlq', '[<dtml-var x url_quote>|<dtml-var x url_quote_plus>|'
             '<dtml-var x url_unquote>|<dtml-var x url_unquote_plus>]',
     [lambda: dict(x='a b%3Cc+<'), lambda: dict(x=T('a b%3Cc+<')),
      lambda: dict(x=b'a b%3Cc+')]),
    ('case', '[<dtml-var x upper>|<dtml-var x lower>|<dtml-var x capitalize>|'
             '<dtml-var x spacify>|<dtml-var x sql_quote>|'
             '<dtml-var x newline_to_br>]',
     [lambda: dict(x="a_B'c\n<d"), lambda: dict(x=T("a_B'c\n<d")),
      lambda: dict(x=b"a_B'c\nd")]),
    ('size', '[<dtml-var x size=5>|<dtml-var x size=5 etc="~">|'
             '<dtml-var x size=n>]',
     [lambda: dict(x='ab cd efgh', n=3), lambda: dict(x='abc', n=9),
      lambda: dict(x=T('ab c<d efgh'), n=6)]),
    ('size-kinds', '[<dtml-var x size=5>|<dtml-var x size=5 etc="~">|'
                   '<dtml-var x size=4 etc=""><dtml-var x size=2 upper>]',
     # too long as bytes, too long as text, short text: what one kind of
     # value needs (an encoded ellipsis) must not stay behind for the next
     [lambda: dict(x=b'ab cd efgh ij'), lambda: dict(x='ab cd efgh ij'),
      lambda: dict(x='abc')]),
    ('null-kinds', '[<dtml-var x null="N" size=3>|<dtml-var x null="N" '
                   'upper>|<dtml-var y missing="M" size=3>]',
     [lambda: dict(x=b''), lambda: dict(x='', y=b'long bytes'),
      lambda: dict(x='long text', y='long text')]),
    ('fmt-special', '[<dtml-var x fmt=dollars-and-cents>|<dtml-var x '
                    'fmt=whole-dollars>|<dtml-var x fmt=collection-length>|'
                    '<dtml-var x fmt="%05d">]',
     [lambda: dict(x=1234.5), lambda: dict(x=7), lambda: dict(x='ab')]),
    ('fmt-method', '[<dtml-var x fmt=meth>]',
     [lambda: dict(x=Obj(k='one')), lambda: dict(x=Obj(k='two')),
      lambda: dict(x='nomethod')]),
    ('fmt-multiline', '[<dtml-var x fmt=multi-line>|<dtml-var x '
                      'fmt=html-quote>|<dtml-var x fmt=url-quote>]',
     [lambda: dict(x='a\nb<'), lambda: dict(x=T('a\nb<')),
      lambda: dict(x='plain')]),
    ('expr', '[<dtml-var "x + y">|<dtml-var "_.len(s)">|<dtml-var "s[0]">]',
     [lambda: dict(x=1, y=2, s=[5]), lambda: dict(x='a', y='b', s='xyz'),
      lambda: dict(x=1.5, y=1, s=(9, 8))]),
    ('expr-lazy-names', '[<dtml-if "have and total > limit">over<dtml-else>'
                        'under</dtml-if>|<dtml-var "lab if labelled else \'-\'">]',
     [lambda: dict(have=0, total=1, labelled=0),
      lambda: dict(have=1, total=5, limit=3, labelled=1, lab='L'),
      lambda: dict(have=1, total=1, limit=3, labelled=0)]),
    ('expr-callable', '[<dtml-var "f">|<dtml-var "f()">|<dtml-var f>]',
     [lambda: dict(f=Fn('F0')), lambda: dict(f=Fn('F1')),
      lambda: dict(f=Fn(2))]),
    ('if-name', '[<dtml-if x>T<dtml-var x><dtml-elif y>Y<dtml-var y>'
                '<dtml-else>E</dtml-if>|<dtml-unless x>U</dtml-unless>]',
     [lambda: dict(x=1, y=2), lambda: dict(y='yy'),
      lambda: dict(x=lambda: 0, y=lambda: 'cy')]),
    ('if-expr', '[<dtml-if "x > 1">big<dtml-elif "x == 1">one<dtml-else>'
                'small</dtml-if>]',
     [lambda: dict(x=5), lambda: dict(x=1), lambda: dict(x=0.5)]),
    ('call', '[<dtml-call x><dtml-call "y(1)">]',
     [lambda: dict(x=lambda: 'r', y=lambda a: a),
      lambda: dict(x=3, y=str), lambda: dict(x=lambda: 1, y=raiser(ErrX))]),
    ('let', '[<dtml-let a=x b="a * 2" c=y>&dtml-a;,&dtml-b;,&dtml-c;'
            '</dtml-let><dtml-var a missing="-">]',
     [lambda: dict(x=2, y='yy'), lambda: dict(x='s', y=lambda: 'cy'),
      lambda: dict(x=[1], y=None)]),
    ('with', '[<dtml-with o><dtml-var k>,<dtml-var q missing="-"></dtml-with>'
             '<dtml-var k missing="-">]',
     [lambda: dict(o=Obj(k='ok')), lambda: dict(o=Obj(k='o2', q='oq'), k='outer'),
      lambda: dict(o={'k': 'dictk'})]),
    ('with-mapping', '[<dtml-with m mapping><dtml-var k></dtml-with>|'
                     '<dtml-with "_.namespace(k=v)"><dtml-var k></dtml-with>]',
     [lambda: dict(m={'k': 'mk'}, v=1), lambda: dict(m={'k': T('m<k')}, v='vv'),
      lambda: dict(m={'k': 0}, v=None)]),
    ('with-only', '[<dtml-with o only><dtml-var k>,<dtml-var outer '
                  'missing="-"></dtml-with><dtml-var outer>]',
     [lambda: dict(o=Obj(k='ok'), outer='O1'),
      lambda: dict(o=Obj(k='o2', outer='inner'), outer='O2'),
      lambda: dict(o=Obj(k=3), outer=0)]),
    ('in-objs', '[<dtml-in seq><dtml-var k>:<dtml-var sequence-index>;'
                '<dtml-else>EMPTY</dtml-in>]',
     [lambda: dict(seq=objs('a', 'b')), lambda: dict(seq=[]),
      lambda: dict(seq=tuple(objs('c', 'd', 'e')))]),
    ('in-kinds', '[<dtml-in seq><dtml-var sequence-key missing="-">='
                 '<dtml-var sequence-item>:<dtml-var k missing="-">;</dtml-in>]',
     [lambda: dict(seq=objs('a', 'b')),
      lambda: dict(seq=[('k1', Obj(k='p')), ('k2', Obj(k='q'))]),
      lambda: dict(seq=[Obj(k='m'), ('k3', Obj(k='r')), 'str', 5,
                        ('k4', Obj(k='s'))])]),
    ('in-mapping', '[<dtml-in seq mapping><dtml-var k>;</dtml-in>]',
     [lambda: dict(seq=maps('a', 'b')), lambda: dict(seq=maps(2, 1, 3)),
      lambda: dict(seq=[])]),
    ('in-prefix', '[<dtml-in seq prefix=row_x><dtml-var row_x_item>'
                  '<dtml-var row_x_number><dtml-var row_x_letter>'
                  '<dtml-var row_x_roman><dtml-if row_x_even>e</dtml-if>'
                  '<dtml-if row_x_end>E</dtml-if><dtml-var row_x_length>;'
                  '</dtml-in>]',
     [lambda: dict(seq=['a', 'b', 'c']), lambda: dict(seq=[1]),
      lambda: dict(seq=(x for x in 'xy'))]),
    ('in-sort', '[<dtml-in seq sort=k><dtml-var k>,</dtml-in>|'
                '<dtml-in seq sort=k reverse><dtml-var k>,</dtml-in>]',
     [lambda: dict(seq=objs(3, 1, 2)), lambda: dict(seq=objs('b', 'C', 'a')),
      lambda: dict(seq=objs(D(2020, 1, 2), D(2019, 5, 5)))]),
    ('in-sort-cmp', '[<dtml-in seq sort="k/by"><dtml-var k>;</dtml-in>]',
     [lambda: dict(seq=objs('kiwi', 'fig', 'apple', 'pear'), by=by_len),
      lambda: dict(seq=objs('kiwi', 'fig', 'apple', 'pear'), by=by_alpha),
      lambda: dict(seq=objs('kiwi', 'fig', 'apple', 'pear'), by=by_alpha_rev)]),
    ('in-sort-multi', '[<dtml-in seq sort="k/nocase,j/cmp/desc">'
                      '<dtml-var k><dtml-var j>;</dtml-in>]',
     [lambda: dict(seq=objs('b', 'A', 'a', 'B')), lambda: dict(seq=objs(2, 1, 2)),
      lambda: dict(seq=objs(None, 'x', None))]),
    ('in-sort-expr', '[<dtml-in seq sort_expr="sk" reverse_expr="rv">'
                     '<dtml-var k><dtml-var j>;</dtml-in>]',
     [lambda: dict(seq=objs(3, 1, 2), sk='k', rv=0),
      lambda: dict(seq=objs(3, 1, 2), sk='j', rv=1),
      lambda: dict(seq=objs(3, 1, 2), sk='k/cmp/desc', rv=0)]),
    ('in-batch-vars', '[<dtml-in seq start=st size=sz orphan=orph overlap=ov>'
                      '<dtml-var sequence-item><dtml-if sequence-end>'
                      '<dtml-if next-sequence>&gt;<dtml-var '
                      'next-sequence-start-number></dtml-if></dtml-if>;'
                      '</dtml-in>]',
     [lambda: dict(seq=list('abcdefg'), st=1, sz=3, orph=0, ov=0),
      lambda: dict(seq=list('abcdefg'), st=4, sz=2, orph=1, ov=1),
      lambda: dict(seq=list('abc'), st=2, sz=5, orph=0, ov=0)]),
    ('in-batch-lit', '[<dtml-in seq size=2 start=2><dtml-if sequence-start>'
                     '<dtml-if previous-sequence>&lt;<dtml-var '
                     'previous-sequence-start-number></dtml-if></dtml-if>'
                     '<dtml-var sequence-item>;</dtml-in>|<dtml-in seq '
                     'size=2 previous>P<dtml-var previous-sequence-size>'
                     '</dtml-in>|<dtml-in seq size=2 next>N<dtml-var '
                     'next-sequence-size></dtml-in>]',
     [lambda: dict(seq=list('abcde')), lambda: dict(seq=['x']),
      lambda: dict(seq=iter('pqrs'))]),
    ('in-stats', '[<dtml-in seq><dtml-if sequence-end><dtml-var total-k>,'
                 '<dtml-var count-k>,<dtml-var min-k>,<dtml-var max-k>,'
                 '<dtml-var mean-k>,<dtml-var median-k></dtml-if></dtml-in>]',
     [lambda: dict(seq=objs(1, 2, 6)), lambda: dict(seq=objs(1.5, None, 2)),
      lambda: dict(seq=objs('a', 'c', 'b'))]),
    ('in-groups', '[<dtml-in seq><dtml-if first-k>(</dtml-if><dtml-var '
                  'sequence-var-k><dtml-if last-k>)</dtml-if></dtml-in>]',
     [lambda: dict(seq=objs(1, 1, 2)), lambda: dict(seq=objs('a', 'b', 'b', 'b')),
      lambda: dict(seq=objs(1))]),
    ('in-nopush', '[<dtml-in seq no_push_item><dtml-var k missing="-">'
                  '<dtml-var "_[\'sequence-item\'].k">;</dtml-in>]',
     [lambda: dict(seq=objs('a')), lambda: dict(seq=objs('b', 'c'), k='outer'),
      lambda: dict(seq=[])]),
    ('try', '[<dtml-try>B<dtml-var f><dtml-except ErrB>hB:<dtml-var '
            'error_type>:<dtml-var error_value><dtml-except ErrA>hA'
            '<dtml-except>bare:<dtml-var error_type><dtml-else>else'
            '</dtml-try><dtml-var error_type missing="-">]',
     [lambda: dict(f='ok'), lambda: dict(f=raiser(ErrB, 'b<')),
      lambda: dict(f=raiser(ErrX, 'x'))]),
    ('try-finally', '[<dtml-try><dtml-try>B<dtml-var f><dtml-finally>'
                    'F<dtml-var g></dtml-try><dtml-except>H</dtml-try>]',
     [lambda: dict(f='ok', g='g'), lambda: dict(f=raiser(ErrA), g='g2'),
      lambda: dict(f='ok', g=raiser(ErrX))]),
    ('raise', '[<dtml-try><dtml-raise t>msg<dtml-var m></dtml-raise>'
              '<dtml-except ErrA>A:<dtml-var error_value><dtml-except>'
              'O:<dtml-var error_type>:<dtml-var error_value></dtml-try>]',
     [lambda: dict(t=ErrA, m='1'), lambda: dict(t=ErrX, m='2'),
      lambda: dict(t='KeyError', m='3')]),
    ('return', 'before<dtml-if x><dtml-return x></dtml-if>after',
     [lambda: dict(x=0), lambda: dict(x=[1, 2]), lambda: dict(x='ret')]),
    ('sub-template', '[<dtml-var s>|<dtml-var d>]',
     [lambda: dict(s=sub('S(<dtml-var d>)', d='sd'), d='cd'),
      lambda: dict(s=sub('S2(<dtml-var d>,<dtml-var e missing="-">)'), d='cd2',
                   e='ce'),
      lambda: dict(s=sub('<dtml-return d>'), d=5)]),
    ('comment', 'a<dtml-comment>x<dtml-var nope></dtml-comment>b<dtml-var x>',
     [lambda: dict(x=1), lambda: dict(x='two'), lambda: dict(x=None)]),
    ('tree', '<dtml-tree root branches=tpValues>&dtml-id;</dtml-tree>',
     [lambda: tree_ns(None), lambda: tree_ns('a'), lambda: tree_ns('b')]),
    ('tree-urlparam', '<dtml-tree root branches=tpValues urlparam="view=c" '
                      'nowrap sort=id>&dtml-id;</dtml-tree>',
     [lambda: tree_ns(None), lambda: tree_ns('a'), lambda: tree_ns('b')]),
    ('tree-options', '<dtml-tree root branches=tpValues reverse single '
                     'assume_children header=hd footer=ft>&dtml-id;'
                     '</dtml-tree>',
     [lambda: dict(tree_ns(None), hd=sub('H'), ft=sub('F')),
      lambda: dict(tree_ns('a'), hd=sub('H2')),
      lambda: dict(tree_ns('b'), ft=sub('F3'))]),
    ('sort-types', '[<dtml-in seq sort=k><dtml-var k>;</dtml-in>]',
     [lambda: dict(seq=objs(DEC('2.5'), DEC('1.5'))),
      lambda: dict(seq=objs(True, False, True)),
      lambda: dict(seq=objs(lambda: 2, lambda: 1))]),
    ('in-expr-reverse', '[<dtml-in "seq" reverse><dtml-var sequence-item>,'
                        '</dtml-in>|<dtml-in expr="seq" reverse_expr="rv">'
                        '<dtml-var sequence-item>;</dtml-in>|<dtml-in "seq" '
                        'size=2 reverse><dtml-var sequence-item></dtml-in>]',
     [lambda: dict(seq=['a', 'b', 'c'], rv=1), lambda: dict(seq=[1, 2], rv=0),
      lambda: dict(seq=[], rv=1)]),
    ('try-samename', '[<dtml-try><dtml-var f><dtml-except LookupError>L'
                     '<dtml-except ValueError>V<dtml-except>O</dtml-try>]',
     [lambda: dict(f=raiser(app_error(LookupError))),
      lambda: dict(f=raiser(app_error(ValueError))),
      lambda: dict(f=raiser(app_error(RuntimeError)))]),
    ('commas-equal-values', '[<dtml-var x fmt=comma-numeric>|<dtml-var x '
                            'thousands_commas>|<dtml-var x fmt=dollars-and-cents>]',
     [lambda: dict(x=1000), lambda: dict(x=1000.0),
      lambda: dict(x=DEC('1000.00'))]),
    ('equal-values', '[<dtml-var x>|&dtml-x;|<dtml-var x upper>|<dtml-var x '
                     'size=3>|<dtml-var "x">|<dtml-if x>t</dtml-if>]',
     [lambda: dict(x=1), lambda: dict(x=True), lambda: dict(x=1.0)]),
    ('in-batch-literal-lengths', '[<dtml-in seq size=3 orphan=2><dtml-var '
                                 'sequence-item><dtml-if sequence-end>'
                                 '<dtml-if next-sequence>+</dtml-if></dtml-if>'
                                 '</dtml-in>|<dtml-in seq start=2 size=2 '
                                 'overlap=1><dtml-var sequence-number>'
                                 '</dtml-in>]',
     [lambda: dict(seq=list('abcdefghijkl')), lambda: dict(seq=list('abcd')),
      lambda: dict(seq=list('abcdefg'))]),
    ('in-nested-same-name', '[<dtml-in seq size=2><dtml-var sequence-item>'
                            '<dtml-if sequence-end>(<dtml-in seq size=1>'
                            '<dtml-var sequence-item></dtml-in>)</dtml-if>'
                            '</dtml-in>]',
     [lambda: dict(seq=list('abcde')), lambda: dict(seq=iter('pqrst')),
      lambda: dict(seq=(c for c in 'xy'))]),
    ('hq-latin1', '[&dtml-x;|<dtml-var x html_quote>|<dtml-var x>.]',
     [lambda: dict(x=b'caf\xc3\xa9 <'), lambda: dict(x='caf\xe9 <'),
      lambda: dict(x=b'\xe9')], {'encoding': 'latin-1'}),
    ('hq-utf8', '[&dtml-x;|<dtml-var x html_quote>|<dtml-var x>.]',
     [lambda: dict(x=b'caf\xc3\xa9 <'), lambda: dict(x='caf\xe9 <'),
      lambda: dict(x=b'\xc3\xa9')], {'encoding': 'utf-8'}),
    ('mixed-syntax-as-html', 'a %(x)s <dtml-var x> %(y)s b',
     [lambda: dict(x=1, y=2), lambda: dict(x='<', y='>'),
      lambda: dict(x=None, y='')]),
    ('mixed-syntax-as-string', 'a %(x)s <dtml-var x> %(y)s b',
     [lambda: dict(x=1, y=2), lambda: dict(x='<', y='>'),
      lambda: dict(x=None, y='')], {'cls': 'String'}),
    # a name that is absent, asked for with missing=: absent it stays
    ('missing-in-mapping', '<dtml-in seq mapping><dtml-var cost missing="-">'
                           '<dtml-if "_.has_key(\'cost\')">!</dtml-if>,'
                           '</dtml-in><dtml-with m mapping><dtml-var cost '
                           'missing="-"><dtml-if "_.has_key(\'cost\')">!'
                           '</dtml-if></dtml-with>',
     [lambda: dict(seq=[{'a': 1}, {'cost': 5}], m={'b': 2}),
      lambda: dict(seq=({'a': 1}, {'a': 2}), m={'cost': 0}),
      lambda: dict(seq=[], m={})]),
    ('missing-defaults', '<dtml-var cost missing="-"><dtml-if '
                         '"_.has_key(\'cost\')">!</dtml-if>|&dtml-d0;',
     [lambda: dict(), lambda: dict(cost=1), lambda: dict()], {'d0': 'x'}),
    # three levels of blocks, every block kind once innermost: in a process
    # that has compiled nothing yet these are the first uses of the tags
    ('nest3-let', '<dtml-if a><dtml-in seq><dtml-let v=sequence-item>'
                  '[<dtml-var v>]</dtml-let></dtml-in><dtml-else>E</dtml-if>',
     [lambda: dict(a=1, seq=[1, 2]), lambda: dict(a=0, seq=[1]),
      lambda: dict(a=1, seq=[])]),
    ('nest3-with', '<dtml-unless a><dtml-try><dtml-with o>[<dtml-var x>]'
                   '</dtml-with><dtml-except>X</dtml-try></dtml-unless>.',
     [lambda: dict(a=0, o=Obj(x=1)), lambda: dict(a=0, o=Obj(y=2)),
      lambda: dict(a=1, o=Obj(x=3))]),
    ('nest3-try', '<dtml-in seq><dtml-with sequence-item><dtml-try>'
                  '[<dtml-var k>]<dtml-except>X</dtml-try></dtml-with>'
                  '</dtml-in>.',
     [lambda: dict(seq=objs(1, 2)), lambda: dict(seq=[Obj(q=1)]),
      lambda: dict(seq=[])]),
    ('nest3-if', '<dtml-with o><dtml-let v=x><dtml-if v>[<dtml-var v>]'
                 '<dtml-else>F</dtml-if></dtml-let></dtml-with>.',
     [lambda: dict(o=Obj(x=1)), lambda: dict(o=Obj(x=0)),
      lambda: dict(o=Obj(x='s'))]),
    ('nest3-in', '<dtml-try><dtml-unless a><dtml-in seq>[<dtml-var '
                 'sequence-item>]</dtml-in></dtml-unless><dtml-except>X'
                 '</dtml-try>.',
     [lambda: dict(a=0, seq=[1, 2]), lambda: dict(a=1, seq=[1]),
      lambda: dict(a=0, seq=7)]),
    ('nest3-unless', '<dtml-let v=a><dtml-in seq><dtml-unless v>'
                     '[<dtml-var sequence-item>]</dtml-unless></dtml-in>'
                     '</dtml-let>.',
     [lambda: dict(a=0, seq=[1, 2]), lambda: dict(a=1, seq=[1]),
      lambda: dict(a=0, seq=[])]),
    ('nest3-raise', '<dtml-try><dtml-in seq><dtml-if sequence-item>'
                    '<dtml-raise KeyError>m<dtml-var sequence-item>'
                    '</dtml-raise></dtml-if></dtml-in>none<dtml-except '
                    'KeyError>[<dtml-var error_value>]</dtml-try>.',
     [lambda: dict(seq=[0, 3]), lambda: dict(seq=[0, 0]),
      lambda: dict(seq=[])]),
    # construction-time data: keyword defaults (also with underscore names),
    # a defaults mapping (underscore keys are not taken), values set through
    # var() -- all of it is part of what a copy / restored object renders
    ('ctor-defaults', '<dtml-var _lead>x<dtml-var tv missing="-">'
                      '<dtml-var m1>&dtml-k1;<dtml-var _h missing="-">'
                      '<dtml-var y missing="-">',
     [lambda: dict(y=1), lambda: dict(m1='call'), lambda: dict()],
     {'_lead': '[', 'k1': 'K', 'mapping': {'m1': 'M', '_h': 'H'},
      'tvars': {'tv': 'TV', '_tv': 'U'}}),
    ('ctor-defaults-string', '%(_lead)s%(tv missing="-")s%(m1)s'
                             '%(y missing="-")s',
     [lambda: dict(y=1), lambda: dict(m1='call'), lambda: dict()],
     {'cls': 'String', '_lead': '[', 'mapping': {'m1': 'M'},
      'tvars': {'tv': 'TV'}}),
    ('broken-source', 'a<dtml-if x>never closed <dtml-var x>',
     [lambda: dict(x=1), lambda: dict(x=0), lambda: dict()]),
    ('broken-expr', 'a<dtml-var "x +">b',
     [lambda: dict(x=1), lambda: dict(x='s'), lambda: dict()]),
    ('raise-expr', '[<dtml-try><dtml-raise expr="t">m<dtml-var m></dtml-raise>'
                   '<dtml-except ErrB>B<dtml-except ErrA>A<dtml-except>O:'
                   '<dtml-var error_type></dtml-try>|<dtml-in ts><dtml-try>'
                   '<dtml-raise "_[\'sequence-item\']">x</dtml-raise>'
                   '<dtml-except ErrA>a<dtml-except>o</dtml-try></dtml-in>]',
     [lambda: dict(t=ErrA, m=1, ts=[ErrA, ErrX, ErrB]),
      lambda: dict(t=ErrX, m=2, ts=[ErrX, ErrA]),
      lambda: dict(t=ErrB, m=3, ts=[])]),
    ('bytes-join', '<dtml-var a><dtml-var b>',
     [lambda: dict(a=b'\xc3\xa9', b=b'x'), lambda: dict(a='\xe9', b=b'\xc3\xa9'),
      lambda: dict(a=1, b=None)]),
]


def observe(t, ns):
    """-> JSON-able observation of one call"""
    try:
        r = t(**ns)
        if isinstance(r, (str, int, float, type(None))):
            return ['ok', r]
        return ['ok', type(r).__name__, repr(r)]
    except Exception as e:
        return ['exc', type(e).__name__, str(e)[:120]]


def snapshot(ns):
    """identity snapshot of the caller's data (top level and one level
    into lists / dicts)"""
    snap = {}
    def item(x):
        # a mapping item: its keys and the identities of its values
        if isinstance(x, dict):
            return (id(x), sorted((repr(a), id(b)) for a, b in x.items()))
        return id(x)
    for k, v in ns.items():
        if isinstance(v, (list, tuple)):
            snap[k] = (id(v), [item(x) for x in v])
        elif isinstance(v, dict):
            snap[k] = (id(v), sorted((repr(a), id(b)) for a, b in v.items()))
        else:
            snap[k] = (id(v), getattr(v, '__dict__', None) and
                       sorted((a, id(b)) for a, b in v.__dict__.items()
                              if not a.startswith('_v_')))
    return snap
