"""Reference interpreter of the abstract DTML syntax (dtmc/ast.py).

Written from the property statements; imports nothing from DocumentTemplate.
It evaluates a template over a *model namespace*: a Python list of frames
searched last-pushed-first.  Values that are callable are called when looked
up by name, passed uncalled to expressions; sub-templates are rendered with
the current stack plus their own defaults on top.

Where the statements leave a behaviour open the interpreter yields UNSPEC and
the whole observation is marked `unspec` (comparison skipped, counted).
"""

import html

import roman as _roman   # independent third-party package (also used by impl)


class _Unspec:
    def __repr__(self):
        return 'UNSPEC'

    __str__ = __repr__


UNSPEC = _Unspec()


class RefReturn(BaseException):
    def __init__(self, v):
        self.v = v


class RefTemplate:
    def __init__(self, nodes, defaults):
        self.nodes = nodes
        self.defaults = defaults

    def __call__(self, client=None, md=None, **kw):
        """called from an expression on the caller's namespace (`_`): its
        defaults, then the client(s), then the keyword arguments on top"""
        if not isinstance(md, _Underscore):
            raise TypeError('reference templates are called with _ only')
        clients = () if client is None else (
            client if isinstance(client, tuple) else (client,))
        return md._i.call_template(self, clients=clients, kw=kw)


# -- frames -------------------------------------------------------------------

class DictFrame:
    def __init__(self, d):
        self.d = d

    def get(self, key):
        return self.d[key]


class ObjFrame:
    def __init__(self, o):
        self.o = o

    def get(self, key):
        if key[:1] == '_':
            raise KeyError(key)
        try:
            return getattr(self.o, key)
        except AttributeError:
            raise KeyError(key)


def _elem_value(item, name, mapping):
    if isinstance(item, tuple) and len(item) == 2:
        item = item[1]
    if mapping:
        return item[name]
    return getattr(item, name)


FIXED = ('item', 'key', 'index', 'number', 'letter', 'Letter', 'roman',
         'Roman', 'even', 'odd', 'start', 'end', 'length')


class SeqFrame:
    """The documented sequence variables of one dtml-in iteration."""

    def __init__(self, items, mapping, prefix, first, last, batched):
        self.items = items
        self.mapping = mapping
        self.prefix = prefix
        self.first = first      # index of first displayed element
        self.last = last        # index of last displayed element
        self.batched = batched
        self.index = first

    def get(self, key):
        p = self.prefix
        if p and key.startswith(p + '_'):
            suffix = key[len(p) + 1:]
            if suffix in FIXED:
                return self.fixed(suffix)
            return UNSPEC
        if key.startswith('sequence-'):
            suffix = key[9:]
            if suffix in FIXED:
                return self.fixed(suffix)
            if suffix.startswith('var-'):
                try:
                    return _elem_value(self.items[self.index], suffix[4:],
                                       self.mapping)
                except (AttributeError, KeyError, TypeError):
                    raise KeyError(key)
            return UNSPEC
        if key.startswith('first-') or key.startswith('last-'):
            if self.batched:
                return UNSPEC
            which, name = key.split('-', 1)
            i = self.index
            try:
                cur = _elem_value(self.items[i], name, self.mapping)
                if which == 'first':
                    if i == 0:
                        return True
                    return cur != _elem_value(self.items[i - 1], name,
                                              self.mapping)
                if i == len(self.items) - 1:
                    return True
                return cur != _elem_value(self.items[i + 1], name,
                                          self.mapping)
            except (AttributeError, KeyError, TypeError):
                return UNSPEC
        for pre in ('previous-', 'next-', 'total-', 'count-', 'min-', 'max-',
                    'median-', 'mean-', 'variance-', 'standard-deviation-'):
            if key.startswith(pre):
                return UNSPEC
        if key == 'mapping':
            return UNSPEC
        raise KeyError(key)

    def fixed(self, suffix):
        i = self.index
        it = self.items[i]
        pair = isinstance(it, tuple) and len(it) == 2
        if suffix == 'item':
            return it[1] if pair else it
        if suffix == 'key':
            return it[0] if pair else UNSPEC
        if suffix == 'index':
            return i
        if suffix == 'number':
            return i + 1
        if suffix == 'letter':
            return chr(ord('a') + i)
        if suffix == 'Letter':
            return chr(ord('A') + i)
        if suffix == 'Roman':
            return _roman.toRoman(i + 1)
        if suffix == 'roman':
            return _roman.toRoman(i + 1).lower()
        if suffix == 'even':
            return i % 2 == 0
        if suffix == 'odd':
            return i % 2 == 1
        if suffix == 'start':
            return i == self.first
        if suffix == 'end':
            return i == self.last
        if suffix == 'length':
            return len(self.items)
        raise KeyError(suffix)


class _Underscore:
    """The `_` object of expressions, as far as the drivers use it."""

    def __init__(self, interp):
        self._i = interp

    def __getitem__(self, key):
        return self._i.lookup(key, True)

    def has_key(self, key):
        try:
            self._i.lookup(key, False)
        except KeyError:
            return False
        return True

    def getitem(self, key, call=0):
        return self._i.lookup(key, bool(call))

    def render(self, v):
        """_.render(v): v as a name lookup in a tag would insert it"""
        return self._i.called(v)


class _Env(dict):
    """locals mapping for eval(): names come uncalled from the stack."""

    def __init__(self, interp):
        dict.__init__(self)
        self.interp = interp

    def __missing__(self, name):
        if name == '_':
            return _Underscore(self.interp)
        try:
            return self.interp.lookup(name, False)
        except KeyError:
            raise NameError("name '%s' is not defined" % name)


SAFE_BUILTINS = {'None': None, 'len': len, 'str': str, 'int': int,
                 'True': True, 'False': False}


def exception_text(exc):
    if not exc.args:
        return ''
    if len(exc.args) == 1:
        return to_text(exc.args[0])
    return str(exc.args)


def to_text(v, encoding='utf-8'):
    if isinstance(v, str):
        return v
    if isinstance(v, bytes):
        return v.decode(encoding)
    if isinstance(v, BaseException):
        return exception_text(v)
    return str(v)


class Interp:
    def __init__(self, encoding='utf-8'):
        self.stack = []
        self.unspec = False
        self.encoding = encoding
        self.level = 0

    # -- namespace
    def lookup(self, key, call):
        for f in reversed(self.stack):
            try:
                v = f.get(key)
            except (KeyError, NameError):
                continue
            if v is UNSPEC:
                self.unspec = True
                return UNSPEC
            if call:
                return self.called(v)
            return v
        raise KeyError(key)

    def called(self, v):
        """what a name lookup in a tag makes of the value it found: an
        object that renders itself with a namespace is handed the current
        one, a document template is rendered on it, any other callable is
        called"""
        if hasattr(v, '__render_with_namespace__'):
            return v.__render_with_namespace__(_Underscore(self))
        if isinstance(v, RefTemplate):
            return self.call_template(v)
        if callable(v) and not isinstance(v, BaseException):
            return v()
        return v

    def evaluate(self, ref, call=True):
        kind, v = ref
        if kind == 'n':
            return self.lookup(v, call)
        code = compile(v.strip(), '<ref-expr>', 'eval')
        return eval(code, {'__builtins__': SAFE_BUILTINS}, _Env(self))

    # -- template calls
    def call_template(self, t, top=None, clients=(), kw=None):
        """Sub-template call: caller's stack + its defaults on top."""
        pushed = 0
        if t.defaults:
            self.stack.append(DictFrame(t.defaults))
            pushed += 1
        for c in clients:
            self.stack.append(ObjFrame(c))
            pushed += 1
        if kw:
            self.stack.append(DictFrame(kw))
            pushed += 1
        self.level += 1
        try:
            try:
                return self.render(t.nodes)
            except RefReturn as r:
                return r.v
        finally:
            self.level -= 1
            del self.stack[len(self.stack) - pushed:]

    def call_top(self, nodes, ctor_mapping=None, ctor_kw=None, mapping=None,
                 clients=(), tvars=None, kw=None):
        """A top-level call with the six documented sources."""
        self.stack = []
        g = {}
        if ctor_mapping:
            for k, v in ctor_mapping.items():
                if k[:1] != '_':
                    g[k] = v
        if ctor_kw:
            g.update(ctor_kw)
        if g:
            self.stack.append(DictFrame(g))
        if mapping:
            self.stack.append(DictFrame(mapping))
        for c in clients:
            self.stack.append(ObjFrame(c))
        if tvars:
            self.stack.append(DictFrame(tvars))
        if kw:
            self.stack.append(DictFrame(kw))
        try:
            return self.render(nodes)
        except RefReturn as r:
            return r.v

    # -- rendering
    def render(self, nodes):
        pieces = []
        self.render_into(nodes, pieces)
        if not pieces:
            return ''
        if len(pieces) == 1:
            return pieces[0]
        return ''.join(to_text(p, self.encoding) for p in pieces)

    def out(self, pieces, v):
        if v is UNSPEC:
            self.unspec = True
            v = '<UNSPEC>'
        if v:
            pieces.append(v)

    def render_into(self, nodes, pieces):
        for n in nodes:
            getattr(self, 'n_' + n[0])(n, pieces)

    def n_text(self, n, pieces):
        self.out(pieces, n[1])

    def n_var(self, n, pieces):
        ref, opts = n[1], n[2]
        o = dict((k, val) for k, val in opts)
        try:
            v = self.evaluate(ref)
        except KeyError as e:
            # missing= replaces an undefined name (C15)
            if ref[0] == 'n' and 'missing' in o and e.args[0] == ref[1]:
                self.out(pieces, o['missing'])
                return
            raise
        if v is UNSPEC:
            self.out(pieces, v)
            return
        keys = [k for k, _ in opts if k != 'missing']
        if not isinstance(v, (str, bytes)):
            v = to_text(v, self.encoding)
        if keys == ['html_quote']:
            v = html.escape(to_text(v, self.encoding), True)
        elif keys:
            self.unspec = True
        self.out(pieces, v)

    def n_ent(self, n, pieces):
        name, mods = n[1], n[2]
        self.n_var(['var', ['n', name], [[m, None] for m in mods]], pieces)

    def n_call(self, n, pieces):
        self.evaluate(n[1])

    def n_comment(self, n, pieces):
        pass

    def n_return(self, n, pieces):
        raise RefReturn(self.evaluate(n[1]))

    def n_if(self, n, pieces):
        branches, els = n[1], n[2]
        cache = {}
        self.stack.append(DictFrame(cache))
        try:
            for ref, body in branches:
                if ref[0] == 'n':
                    try:
                        cond = self.lookup(ref[1], True)
                    except KeyError as e:
                        if e.args[0] != ref[1]:
                            raise
                        cond = None
                    else:
                        cache[ref[1]] = cond
                else:
                    cond = self.evaluate(ref)
                if cond is UNSPEC:
                    return
                if cond:
                    if body:
                        self.render_into(body, pieces)
                    return
            if els:
                self.render_into(els, pieces)
        finally:
            self.stack.pop()

    def n_unless(self, n, pieces):
        self.n_if(['if', [[n[1], []]], n[2]], pieces)

    def n_with(self, n, pieces):
        ref, body, flags = n[1], n[2], n[3]
        v = self.evaluate(ref)
        if 'mapping' in flags:
            frame = DictFrame(v)
        else:
            if isinstance(v, tuple) and len(v) == 1:
                v = v[0]
            frame = ObjFrame(v)
        saved = self.stack
        if 'only' in flags:
            self.stack = []
        self.stack.append(frame)
        try:
            self.out(pieces, self.render(body))
        finally:
            self.stack.pop()
            self.stack = saved

    def n_let(self, n, pieces):
        d = {}
        self.stack.append(DictFrame(d))
        try:
            for name, ref in n[1]:
                d[name] = self.evaluate(ref)
            self.out(pieces, self.render(n[2]))
        finally:
            self.stack.pop()

    def n_in(self, n, pieces):
        ref, body, els, opts = n[1], n[2], n[3], n[4]
        o = dict((k, v) for k, v in opts)
        seq = self.evaluate(ref)
        if seq is UNSPEC:
            self.unspec = True
            return
        if isinstance(seq, str):
            raise ValueError('Strings are not allowed as input to the in tag.')
        items = list(seq)
        if not items:
            if els:
                self.out(pieces, self.render(els))
            return
        mapping = 'mapping' in o
        if 'sort' in o:
            key = o['sort']
            if key in ('', 'sequence-item'):
                def kf(it):
                    return it[0] if isinstance(it, tuple) and len(it) == 2 \
                        else it
            else:
                def kf(it, key=key):
                    return _elem_value(it, key, mapping)
            items = sorted(items, key=kf)
        if 'reverse' in o:
            items = items[::-1]
        batched = any(k in o for k in ('start', 'size', 'end'))
        first, last = 0, len(items) - 1
        if batched:
            start = int(o.get('start', 0) or 0)
            size = int(o.get('size', 0) or 0)
            if 'end' in o or start < 1 or size < 1 or 'orphan' in o or \
                    'overlap' in o:
                self.unspec = True
                return
            first = min(start, len(items)) - 1
            last = min(first + size - 1, len(items) - 1)
        frame = SeqFrame(items, mapping, o.get('prefix'), first, last,
                         batched)
        pushed = 0
        if ref[0] == 'n':
            # the sequence itself stays reachable under its name
            self.stack.append(DictFrame(
                {ref[1]: seq if isinstance(seq, (list, tuple)) else UNSPEC}))
            pushed += 1
        self.stack.append(frame)
        pushed += 1
        try:
            res = []
            for i in range(first, last + 1):
                frame.index = i
                it = items[i]
                if isinstance(it, tuple) and len(it) == 2:
                    it = it[1]
                p = 0
                if 'no_push_item' in o:
                    pass
                elif mapping:
                    self.stack.append(DictFrame(it))
                    p = 1
                elif isinstance(it, (str, bytes)):
                    pass
                else:
                    self.stack.append(ObjFrame(it))
                    p = 1
                try:
                    res.append(self.render(body))
                finally:
                    if p:
                        self.stack.pop()
            self.out(pieces, ''.join(to_text(r, self.encoding) for r in res))
        finally:
            del self.stack[len(self.stack) - pushed:]

    def n_try(self, n, pieces):
        body, handlers, els = n[1], n[2], n[3]
        try:
            result = self.render(body)
        except Exception as exc:
            t = type(exc)
            names = [c.__name__ for c in t.__mro__]
            chosen = None
            for hn, hbody in handlers:
                if not hn or any(x in names for x in hn):
                    chosen = hbody
                    break
                # a handler naming several classes is one handler
            if chosen is None:
                raise
            ns = Obj3(error_type=t.__name__, error_value=exc,
                      error_tb=UNSPEC)
            self.stack.append(ObjFrame(ns))
            try:
                self.out(pieces, self.render(chosen))
            finally:
                self.stack.pop()
        else:
            if els is None:
                self.out(pieces, result)
            else:
                r2 = self.render(els)
                self.out(pieces, to_text(result, self.encoding) +
                         to_text(r2, self.encoding))

    def n_tryf(self, n, pieces):
        body, fin = n[1], n[2]
        result = ''
        try:
            result = self.render(body)
        finally:
            result = to_text(result, self.encoding) + \
                to_text(self.render(fin), self.encoding)
        self.out(pieces, result)

    def n_raise(self, n, pieces):
        tref, body = n[1], n[2]
        import builtins
        if tref[0] == 't':
            t = getattr(builtins, tref[1], None)
            if not (isinstance(t, type) and issubclass(t, Exception)):
                self.unspec = True
                t = RuntimeError
        else:
            t = self.evaluate(tref)
        try:
            v = self.render(body)
        except Exception:
            # the statement does not say what a raising body means (the
            # implementation substitutes a fixed message)
            self.unspec = True
            raise
        raise t(v)


class Obj3:
    def __init__(self, **kw):
        self.__dict__.update(kw)
