"""Core of the bounded exhaustive explorer.

A *driver* (dtmc/props/cNN.py) supplies

    ID, LEVEL, RULE, ASSUMPTIONS
    cases(tier)          deterministic, duplicate-free enumeration of cases
                         (pure JSON-able data), simplest first
    run(case) -> Res     executes the case on the real code, judges it
    finalize(tier, agg)  optional: vacuity guards / extra coverage keys

The core shards the enumeration over worker processes, applies a per-case
CPU watchdog, merges the statistics, matches violations against the committed
known-findings file, writes replay files and the evidence file, and turns
the whole thing into the exit-code protocol of MANIFEST.json:

    0  property held on everything explored (known findings are printed)
    1  at least one violation not listed as known (VIOLATION line printed)
    2  harness fault (never a verdict)
"""

import collections
import hashlib
import importlib
import json
import multiprocessing
import os
import signal
import sys
import time
import traceback

HERE = os.path.dirname(os.path.dirname(os.path.abspath(__file__)))
EVIDENCE_DIR = os.environ.get('VERIF_EVIDENCE_DIR') or \
    os.path.join(HERE, 'evidence')
REPLAY_DIR = os.environ.get('VERIF_REPLAY_DIR') or \
    os.path.join(HERE, 'replays')
KNOWN_FILE = os.path.join(HERE, 'known_findings.json')

CASE_CPU_SECONDS = 4.0
MAX_VIOL_PER_SIG_PER_WORKER = 3
MAX_PRINTED_SIGS = int(os.environ.get('VERIF_MAX_SIGS', '16'))
DISTINCT_CAP_PER_WORKER = 400000


class CaseTimeout(BaseException):
    """Raised inside a case when its CPU budget is exhausted."""


class HarnessFault(Exception):
    """The harness itself misbehaved (vacuous run, nondeterminism...)."""


def _on_timer(signum, frame):
    raise CaseTimeout()


class Res:
    """Result of one case."""
    __slots__ = ('nontrivial', 'outcome', 'violations', 'counters',
                 'states', 'transitions', 'traces', 'evals', 'nt_count',
                 'sample')

    def __init__(self, nontrivial=False, outcome='ok'):
        self.nontrivial = nontrivial
        self.outcome = outcome
        self.violations = []
        self.counters = {}
        self.states = 0
        self.transitions = 0
        self.traces = 0
        self.evals = 1
        # a case that bundles many sub-cases (distinct by construction)
        # reports how many of them were non-trivial
        self.nt_count = None
        self.sample = None

    def violate(self, clause, sig, detail=None, case=None):
        self.violations.append(
            {'clause': clause, 'sig': sig, 'detail': detail, 'case': case})

    def count(self, name, n=1):
        self.counters[name] = self.counters.get(name, 0) + n


def setup_path():
    src = os.environ.get('VERIF_SRC', '/repo/src')
    if src in sys.path:
        sys.path.remove(src)
    sys.path.insert(0, src)
    return src


def load_driver(pid):
    setup_path()
    return importlib.import_module('dtmc.props.' + pid.lower())


def case_key(case):
    return json.dumps(case, sort_keys=True, default=repr)


def _hash64(s):
    return int.from_bytes(hashlib.blake2b(s.encode('utf-8', 'surrogatepass'),
                                          digest_size=8).digest(), 'big')


_timeouts = [0]
_tier = ['thorough']
_maxcpu = [0.0]
AFTER_TIMEOUT_BUDGET = 10.0
MAX_TIMEOUTS_PER_WORKER = 3


def run_one(driver, case):
    """Run one case under the CPU watchdog; CaseTimeout that escapes the
    driver becomes a violation (no property tolerates a hang).

    The budget is generous (a case bundles many renders).  Once a worker
    has seen a case exceed it, the verdict is already "violated": the
    remaining cases of that worker get a short budget, and after
    MAX_TIMEOUTS_PER_WORKER timeouts they are skipped (counted, and the
    evidence says that the enumeration was cut short) - a library that
    hangs must not turn a check into an hours-long run."""
    budget = getattr(driver, 'CASE_CPU_SECONDS', CASE_CPU_SECONDS)
    if _tier[0] == 'quick':
        # the quick tier's cases are much smaller: tighter budget (still
        # about ten times the slowest case measured on a loaded machine)
        budget = getattr(driver, 'CASE_CPU_SECONDS_QUICK', budget)
    if _timeouts[0] >= MAX_TIMEOUTS_PER_WORKER:
        res = Res(outcome='skipped-after-timeouts')
        res.evals = 0
        return res
    if _timeouts[0]:
        budget = min(budget, AFTER_TIMEOUT_BUDGET)
    signal.setitimer(signal.ITIMER_VIRTUAL, budget)
    t0 = time.process_time()
    try:
        try:
            res = driver.run(case)
        finally:
            signal.setitimer(signal.ITIMER_VIRTUAL, 0)
            _maxcpu[0] = max(_maxcpu[0], time.process_time() - t0)
    except CaseTimeout:
        _timeouts[0] += 1
        res = Res(nontrivial=True, outcome='timeout')
        res.violate('termination', 'timeout',
                    'case exceeded %.1fs CPU' % budget)
    except HarnessFault:
        raise
    except Exception as exc:
        # an exception that the driver did not expect.  If it was raised
        # *inside the library under test* (innermost frame in $VERIF_SRC)
        # the library deviates from everything the unchanged tree does in
        # this case: a violation with the traceback as evidence.  If it was
        # raised by harness code it stays a harness fault.
        tb = exc.__traceback__
        while tb.tb_next is not None:
            tb = tb.tb_next
        fn = tb.tb_frame.f_code.co_filename
        src = os.path.realpath(os.environ.get('VERIF_SRC', '/repo/src'))
        if not os.path.realpath(fn).startswith(src + os.sep):
            raise
        res = Res(nontrivial=True, outcome='impl-exception')
        res.violate('no-unexpected-exception', 'impl-exception:%s@%s.%s' % (
            type(exc).__name__, os.path.basename(fn)[:-3],
            tb.tb_frame.f_code.co_name),
            {'traceback': traceback.format_exc()[-1200:]})
    return res


_cov = {'seen': set(), 'dumped': 0, 'on': False}


def _cov_start():
    """VERIF_LINECOV=<dir>: record which lines of the library under test the
    check executes (sys.monitoring, each location reported once).  A tool
    for finding gaps in the alphabets (tools/linecov.py); no verdict
    depends on it."""
    d = os.environ.get('VERIF_LINECOV')
    if not d or _cov['on']:
        return
    src = os.path.realpath(os.environ.get('VERIF_SRC', '/repo/src'))
    mon = sys.monitoring
    mon.use_tool_id(4, 'dtmc-linecov')

    def on_line(code, line):
        fn = code.co_filename
        if fn.startswith(src):
            _cov['seen'].add((fn[len(src) + 1:], line))
        return mon.DISABLE

    mon.register_callback(4, mon.events.LINE, on_line)
    mon.set_events(4, mon.events.LINE)
    _cov['on'] = True


def _cov_dump():
    if not _cov['on'] or len(_cov['seen']) == _cov['dumped']:
        return
    d = os.environ['VERIF_LINECOV']
    os.makedirs(d, exist_ok=True)
    path = os.path.join(d, 'lines.%d.json' % os.getpid())
    with open(path + '.tmp', 'w') as f:
        json.dump(sorted(_cov['seen']), f)
    os.replace(path + '.tmp', path)
    _cov['dumped'] = len(_cov['seen'])


def _worker(args):
    pid, tier, shard, nshards, seed = args
    _tier[0] = tier
    signal.signal(signal.SIGVTALRM, _on_timer)
    driver = load_driver(pid)
    agg = {
        'evaluations': 0, 'cases': 0, 'nontrivial': 0,
        'distinct': set(), 'distinct_overflow': 0,
        'outcomes': collections.Counter(),
        'counters': collections.Counter(),
        'violations': [], 'viol_counts': collections.Counter(),
        'states': 0, 'transitions': 0, 'traces': 0,
        'samples': [], 'fault': None, 'first_index': {},
    }
    try:
        for i, case in enumerate(driver.cases(tier)):
            if (i + seed) % nshards != shard:
                continue
            res = run_one(driver, case)
            agg['cases'] += 1
            agg['evaluations'] += res.evals
            agg['outcomes'][res.outcome] += 1
            for k, v in res.counters.items():
                agg['counters'][k] += v
            agg['maxcpu'] = max(agg.get('maxcpu', 0.0), _maxcpu[0])
            agg['states'] += res.states
            agg['transitions'] += res.transitions
            agg['traces'] += res.traces
            if res.nt_count is not None:
                agg['nontrivial'] += res.nt_count
                agg['distinct_overflow'] += res.nt_count
                if res.nt_count and len(agg['samples']) < 2:
                    agg['samples'].append(res.sample if res.sample is not None
                                          else case)
            elif res.nontrivial:
                agg['nontrivial'] += 1
                if len(agg['distinct']) < DISTINCT_CAP_PER_WORKER:
                    agg['distinct'].add(_hash64(case_key(case)))
                else:
                    agg['distinct_overflow'] += 1
                if len(agg['samples']) < 2:
                    agg['samples'].append(case)
            for v in res.violations:
                sig = v['sig']
                agg['viol_counts'][sig] += 1
                if agg['viol_counts'][sig] <= MAX_VIOL_PER_SIG_PER_WORKER:
                    if v.get('case') is None:
                        v['case'] = case
                    v['index'] = i
                    agg['violations'].append(v)
    except Exception:
        agg['fault'] = traceback.format_exc()
    _cov_dump()
    return agg


_dyn = {}


def _dyn_init(pid, tier='thorough'):
    _tier[0] = tier
    signal.signal(signal.SIGVTALRM, _on_timer)
    _dyn['driver'] = load_driver(pid)


def _dyn_case(args):
    """one case per task (dynamic load balancing for few, heavy cases)"""
    i, case = args
    driver = _dyn['driver']
    agg = {
        'evaluations': 0, 'cases': 0, 'nontrivial': 0,
        'distinct': set(), 'distinct_overflow': 0,
        'outcomes': collections.Counter(),
        'counters': collections.Counter(),
        'violations': [], 'viol_counts': collections.Counter(),
        'states': 0, 'transitions': 0, 'traces': 0,
        'samples': [], 'fault': None,
    }
    try:
        res = run_one(driver, case)
        agg['cases'] = 1
        agg['evaluations'] = res.evals
        agg['outcomes'][res.outcome] += 1
        agg['counters'].update(res.counters)
        agg['maxcpu'] = _maxcpu[0]
        agg['states'], agg['transitions'], agg['traces'] = \
            res.states, res.transitions, res.traces
        if res.nt_count is not None:
            agg['nontrivial'] = res.nt_count
            agg['distinct_overflow'] = res.nt_count
            if res.nt_count:
                agg['samples'].append(res.sample if res.sample is not None
                                      else case)
        elif res.nontrivial:
            agg['nontrivial'] = 1
            agg['distinct'].add(_hash64(case_key(case)))
            agg['samples'].append(case)
        for v in res.violations:
            agg['viol_counts'][v['sig']] += 1
            if agg['viol_counts'][v['sig']] <= MAX_VIOL_PER_SIG_PER_WORKER:
                if v.get('case') is None:
                    v['case'] = case
                v['index'] = i
                agg['violations'].append(v)
    except Exception:
        agg['fault'] = traceback.format_exc()
    _cov_dump()
    return agg


def merge(aggs):
    out = {
        'evaluations': 0, 'cases': 0, 'nontrivial': 0,
        'distinct': set(), 'distinct_overflow': 0,
        'outcomes': collections.Counter(),
        'counters': collections.Counter(),
        'violations': [], 'viol_counts': collections.Counter(),
        'states': 0, 'transitions': 0, 'traces': 0,
        'samples': [], 'fault': None,
    }
    for a in aggs:
        for k in ('evaluations', 'cases', 'nontrivial', 'distinct_overflow',
                  'states', 'transitions', 'traces'):
            out[k] += a[k]
        out['maxcpu'] = max(out.get('maxcpu', 0.0), a.get('maxcpu', 0.0))
        out['distinct'] |= a['distinct']
        out['outcomes'].update(a['outcomes'])
        out['counters'].update(a['counters'])
        out['viol_counts'].update(a['viol_counts'])
        out['violations'].extend(a['violations'])
        out['samples'].extend(a['samples'])
        if a['fault'] and not out['fault']:
            out['fault'] = a['fault']
    out['violations'].sort(key=lambda v: (v.get('index', 0), v['sig']))
    return out


def load_known(pid):
    try:
        with open(KNOWN_FILE) as f:
            data = json.load(f)
    except FileNotFoundError:
        return {}
    known = {}
    for e in data.get('findings', []):
        if e.get('property') == pid and e.get('status') == 'known':
            known[e['sig']] = e
    return known


def write_replay(pid, v):
    d = os.path.join(REPLAY_DIR, pid)
    os.makedirs(d, exist_ok=True)
    name = hashlib.sha1(v['sig'].encode()).hexdigest()[:12] + '.json'
    path = os.path.join(d, name)
    with open(path, 'w') as f:
        json.dump({'property': pid, 'sig': v['sig'], 'clause': v['clause'],
                   'case': v['case'], 'detail': v['detail']},
                  f, indent=1, default=repr, sort_keys=True)
    return path


def write_evidence(pid, tier, seed, level, coverage, assumptions, wall,
                   nviol):
    os.makedirs(EVIDENCE_DIR, exist_ok=True)
    ev = {
        'property_id': pid, 'tier': tier, 'seed': seed, 'level': level,
        'coverage': coverage, 'assumptions': assumptions,
        'wall_s': round(wall, 2), 'violations': nviol,
    }
    path = os.path.join(EVIDENCE_DIR, pid + '.json')
    tmp = path + '.tmp'
    with open(tmp, 'w') as f:
        json.dump(ev, f, indent=1, default=repr, sort_keys=True)
    os.replace(tmp, path)
    return path


def check(pid, tier='quick', jobs=None, seed=0):
    t0 = time.time()
    src = setup_path()
    _cov_start()
    driver = load_driver(pid)
    import DocumentTemplate
    real = os.path.realpath(os.path.dirname(DocumentTemplate.__file__))
    if not real.startswith(os.path.realpath(src)):
        print('HARNESS-FAULT: DocumentTemplate imported from %s, not %s'
              % (real, src))
        return 2
    jobs = jobs or int(os.environ.get('VERIF_JOBS', '0')) or \
        min(16, os.cpu_count() or 1)
    if getattr(driver, 'SERIAL', False):
        jobs = 1
    ctx = multiprocessing.get_context('fork')
    args = [(pid, tier, s, jobs, seed) for s in range(jobs)]
    if getattr(driver, 'DYNAMIC', False) and jobs > 1:
        # heaviest-first is not known; shuffle deterministically by seed so
        # that neighbouring (similar) cases do not queue on one worker
        todo = list(enumerate(driver.cases(tier)))
        todo = todo[seed % max(len(todo), 1):] + \
            todo[:seed % max(len(todo), 1)]
        with ctx.Pool(jobs, initializer=_dyn_init, initargs=(pid, tier)) as pool:
            aggs = list(pool.imap_unordered(_dyn_case, todo, chunksize=1))
    elif jobs == 1:
        aggs = [_worker(args[0])]
    else:
        with ctx.Pool(jobs) as pool:
            aggs = pool.map(_worker, args, chunksize=1)
    _cov_dump()
    agg = merge(aggs)
    if agg['fault']:
        print('HARNESS-FAULT in worker:\n' + agg['fault'])
        return 2

    extra = {}
    fin = getattr(driver, 'finalize', None)
    if fin is not None:
        try:
            extra = fin(tier, agg) or {}
        except HarnessFault as e:
            # the vacuity guards protect a PASS verdict.  When violations
            # were found (e.g. the library hangs or raises everywhere, so
            # that whole families produced nothing) the verdict is FAIL and
            # the guard must not turn it into a harness fault.
            known0 = load_known(pid)
            if not any(v['sig'] not in known0 for v in agg['violations']):
                print('HARNESS-FAULT: %s' % e)
                return 2
            print('NOTE: vacuity guard not satisfied (%s); violations are '
                  'reported below' % e)
            extra = {'vacuity_guard_failed': str(e)}

    known = load_known(pid)
    by_sig = collections.OrderedDict()
    for v in agg['violations']:
        by_sig.setdefault(v['sig'], v)
    rc = 0
    new = 0
    for sig, v in by_sig.items():
        n = agg['viol_counts'][sig]
        if sig in known:
            print('KNOWN-FINDING: property=%s %s [sig=%s, %d case(s)]'
                  % (pid, known[sig].get('text', ''), sig, n))
        else:
            rc = 1
            new += 1
            if new > MAX_PRINTED_SIGS:
                continue
            path = write_replay(pid, v)
            print('VIOLATION property=%s replay=%s' % (pid, path))
            print('  clause=%s sig=%s cases=%d' % (v['clause'], sig, n))
            print('  detail=%s' % (json.dumps(v['detail'], default=repr)[:600]))
            print('  case=%s' % (json.dumps(v['case'], default=repr)[:600]))
    if new > MAX_PRINTED_SIGS:
        print('  ... and %d more violation signatures (not printed)'
              % (new - MAX_PRINTED_SIGS))

    distinct = len(agg['distinct']) + agg['distinct_overflow']
    coverage = {
        'evaluations': agg['evaluations'],
        'cases': agg['cases'],
        'distinct_nontrivial': distinct,
        'rule': driver.RULE,
        'samples': (agg['samples'][:6] or ['(none)']),
        'outcomes': dict(agg['outcomes'].most_common(40)),
        'distinct_outcomes': len(agg['outcomes']),
        'counters': dict(agg['counters']),
        'exhaustive': bool(getattr(driver, 'EXHAUSTIVE', True)),
        'workers': jobs,
        'max_case_cpu_s': round(agg.get('maxcpu', 0.0), 2),
        'case_cpu_budget_s': getattr(
            driver, 'CASE_CPU_SECONDS_QUICK' if tier == 'quick' else
            'CASE_CPU_SECONDS', getattr(driver, 'CASE_CPU_SECONDS',
                                        CASE_CPU_SECONDS)),
        'known_findings_seen': sorted(s for s in by_sig if s in known),
        'source_tree': src,
    }
    if driver.LEVEL == 'model_checking':
        coverage['states'] = agg['states']
        coverage['transitions'] = agg['transitions']
        coverage['traces_validated_against_impl'] = agg['traces']
    coverage.update(extra)
    write_evidence(pid, tier, seed, driver.LEVEL, coverage,
                   list(getattr(driver, 'ASSUMPTIONS', [])),
                   time.time() - t0, sum(agg['viol_counts'].values()))
    print('%s %s tier=%s cases=%d evaluations=%d nontrivial=%d outcomes=%d '
          'violations(new sigs)=%d wall=%.1fs'
          % ('FAIL' if rc else 'OK', pid, tier, agg['cases'],
             agg['evaluations'], distinct, len(agg['outcomes']), new,
             time.time() - t0))
    return rc


def replay(pid, path):
    setup_path()
    driver = load_driver(pid)
    signal.signal(signal.SIGVTALRM, _on_timer)
    with open(path) as f:
        rec = json.load(f)
    outs = []
    for _ in range(2):
        res = run_one(driver, rec['case'])
        outs.append(sorted((v['sig'], v['clause']) for v in res.violations))
    if outs[0] != outs[1]:
        print('HARNESS-FAULT: replay is not deterministic: %r vs %r'
              % (outs[0], outs[1]))
        return 2
    if outs[0]:
        print('VIOLATION property=%s replay=%s' % (pid, path))
        for v in res.violations:
            print('  clause=%s sig=%s detail=%s'
                  % (v['clause'], v['sig'],
                     json.dumps(v['detail'], default=repr)[:800]))
        return 1
    print('replay of %s: no violation on this tree' % path)
    return 0
