import argparse
import os
import sys

from . import core


def main(argv=None):
    ap = argparse.ArgumentParser(prog='check')
    ap.add_argument('property')
    ap.add_argument('--tier', default=os.environ.get('VERIF_TIER', 'quick'),
                    choices=['quick', 'thorough'])
    ap.add_argument('--replay')
    ap.add_argument('--jobs', type=int, default=None)
    a = ap.parse_args(argv)
    pid = a.property.upper()
    try:
        seed = int(os.environ.get('VERIF_SEED', '0') or 0)
    except ValueError:
        seed = 0
    if a.replay:
        return core.replay(pid, a.replay)
    return core.check(pid, a.tier, a.jobs, seed)


if __name__ == '__main__':
    sys.exit(main())
