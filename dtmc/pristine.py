"""Pristine-process oracle.

Several properties say "the result equals what a fresh template / a thread
running alone / an untouched process would give".  Comparing with a fresh
template built *in the same process* is blind to state the library keeps at
module or class level (a memo keyed by value, a class-level variable table,
an lru_cache): the fresh template reads the same polluted state.  This
module gives drivers an observation that cannot be polluted:

    alone(driver_id, function_name, args)  ->  JSON value

evaluates ``dtmc.props.<driver_id>.<function_name>(*args)`` in a child that
is forked, for this one call only, from a *zygote* process which has imported
DocumentTemplate / TreeDisplay and the driver module but has never compiled
or rendered anything.  One zygote per worker process, started lazily;
requests and answers are JSON lines on its stdin/stdout.
"""

import atexit
import json
import os
import signal
import subprocess
import sys

_zygote = None
_cache = {}


def _start():
    global _zygote
    env = dict(os.environ)
    here = os.path.dirname(os.path.dirname(os.path.abspath(__file__)))
    env['PYTHONPATH'] = here + os.pathsep + env.get('PYTHONPATH', '')
    env.setdefault('PYTHONHASHSEED', '0')
    _zygote = subprocess.Popen(
        [sys.executable, '-m', 'dtmc.pristine'], stdin=subprocess.PIPE,
        stdout=subprocess.PIPE, env=env, cwd=here, text=True, bufsize=1)
    atexit.register(_stop)


def _stop():
    global _zygote
    z, _zygote = _zygote, None
    if z is not None:
        try:
            z.stdin.close()
            z.wait(timeout=5)
        except Exception:
            z.kill()


def alone(driver_id, fn, args, cache=True):
    """result of dtmc.props.<driver_id>.<fn>(*args) in a pristine process"""
    key = json.dumps([driver_id, fn, args], sort_keys=True)
    if cache and key in _cache:
        return _cache[key]
    if _zygote is None or _zygote.poll() is not None:
        _start()
    _zygote.stdin.write(key + '\n')
    _zygote.stdin.flush()
    line = _zygote.stdout.readline()
    if not line:
        raise RuntimeError('pristine zygote died on %s' % key)
    ans = json.loads(line)
    if 'error' in ans:
        raise RuntimeError('pristine call %s failed: %s' % (key, ans['error']))
    if cache:
        _cache[key] = ans['value']
    return ans['value']


def _serve():
    import importlib
    import traceback
    from .core import setup_path
    setup_path()
    import DocumentTemplate  # noqa: F401
    import TreeDisplay  # noqa: F401
    mods = {}
    out = sys.stdout
    for line in sys.stdin:
        line = line.strip()
        if not line:
            continue
        did, fn, args = json.loads(line)
        if did not in mods:
            mods[did] = importlib.import_module('dtmc.props.' + did.lower())
        r, w = os.pipe()
        pid = os.fork()
        if pid == 0:
            os.close(r)
            signal.signal(signal.SIGVTALRM, signal.SIG_DFL)
            signal.setitimer(signal.ITIMER_VIRTUAL, 30.0)
            try:
                val = {'value': getattr(mods[did], fn)(*args)}
            except BaseException:
                val = {'error': traceback.format_exc()[-1500:]}
            with os.fdopen(w, 'w') as f:
                f.write(json.dumps(val))
            os._exit(0)
        os.close(w)
        with os.fdopen(r) as f:
            data = f.read()
        os.waitpid(pid, 0)
        out.write((data or json.dumps({'error': 'child died'})) + '\n')
        out.flush()


if __name__ == '__main__':
    _serve()
