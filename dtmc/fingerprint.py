"""Object-graph fingerprint of compiled templates (read-only inspection).

Used by C07 (the three syntaxes compile to the same program) and C17
(canonical state of a template across operation histories).  The
fingerprint is deliberately fine: class names, instance dictionaries,
containers, bound methods as (qualname, fingerprint of self), Eval objects by
their expression text, regular expressions by pattern.  Over-fine only costs
states; it never merges different programs.
"""

import re
import types

_RE = type(re.compile(''))


def fingerprint(obj, normalise_let=True, _memo=None, _depth=0):
    memo = {} if _memo is None else _memo
    if obj is None or isinstance(obj, (bool, int, float, str, bytes)):
        return ['lit', type(obj).__name__, repr(obj)]
    if _depth > 60:
        return ['deep']
    oid = id(obj)
    if oid in memo:
        return ['ref', memo[oid]]
    if isinstance(obj, (list, tuple)):
        memo[oid] = len(memo)
        return [type(obj).__name__] + [
            fingerprint(x, normalise_let, memo, _depth + 1) for x in obj]
    if isinstance(obj, dict):
        memo[oid] = len(memo)
        return ['dict'] + [[repr(k), fingerprint(v, normalise_let, memo,
                                                 _depth + 1)]
                           for k, v in sorted(obj.items(),
                                              key=lambda kv: repr(kv[0]))]
    if isinstance(obj, _RE):
        return ['re', obj.pattern, obj.flags]
    if isinstance(obj, types.MethodType):
        return ['method', obj.__func__.__qualname__,
                fingerprint(obj.__self__, normalise_let, memo, _depth + 1)]
    if isinstance(obj, (types.FunctionType, types.BuiltinFunctionType)):
        return ['func', getattr(obj, '__qualname__', repr(obj))]
    if isinstance(obj, type):
        return ['class', obj.__module__, obj.__qualname__]
    if isinstance(obj, types.CodeType):
        return ['code', obj.co_name, list(obj.co_names),
                [repr(c) for c in obj.co_consts
                 if not isinstance(c, types.CodeType)]]
    cls = type(obj)
    memo[oid] = len(memo)
    name = cls.__qualname__
    d = getattr(obj, '__dict__', None)
    if d is None:
        return ['obj', name, repr(obj)]
    items = []
    for k in sorted(d):
        v = d[k]
        if normalise_let and name == 'Let' and k == '__name__' and \
                isinstance(v, str):
            v = ' '.join(v.split())     # raw argument text: blanks vary
        items.append([k, fingerprint(v, normalise_let, memo, _depth + 1)])
    return ['inst', cls.__module__, name, items]


def digest(fp):
    import hashlib
    import json
    return hashlib.blake2b(json.dumps(fp, sort_keys=True).encode(),
                           digest_size=12).hexdigest()


def first_difference(a, b, path='$'):
    """human-readable location of the first difference of two fingerprints"""
    if type(a) is not type(b):
        return '%s: %r vs %r' % (path, a, b)
    if isinstance(a, list):
        for i, (x, y) in enumerate(zip(a, b)):
            d = first_difference(x, y, '%s[%d]' % (path, i))
            if d:
                return d
        if len(a) != len(b):
            return '%s: length %d vs %d' % (path, len(a), len(b))
        return None
    if a != b:
        return '%s: %r vs %r' % (path, a, b)
    return None
