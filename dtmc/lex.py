"""Conservative tag locator, independent of the parser under test.

It answers only questions that have an unambiguous answer by the documented
syntax:

definitely_tag_free(cls, s)
    True only if `s` cannot contain a tag under any reading of the grammar:
    HTML class: no '<dtml-' or '</dtml-' that is followed anywhere later by
    '>', no '<!--#' followed later by '-->', no '&dtml-' / '&dtml.' whose
    text up to the next ';' consists of name characters only (an entity
    reference is '&dtml-name;' or '&dtml.fmt.fmt-name;': a blank, line end
    or any other character before the ';' means it is not one, and so does
    an empty name).  String
    class: no '%(' followed later by a ')' after which a format can start
    (a tag is '%(' ... ')' directly followed by digits / point / a
    letter, or by one of '[', ']', '!'; ')' followed by a blank, a sign, '#',
    other punctuation or the end of the text closes
    no tag).

cleanly_tagged(cls, src, spans)
    True only if every occurrence of a tag opener in `src` is the start of a
    tag the printer emitted (spans), i.e. no text fragment fuses with a
    neighbouring tag or contains an opener of its own.

The oracles of C01 speak only where these functions say True; everything
else is C06 material (compile terminates, fails only with ParseError).
"""

HTML_OPENERS = (('<dtml-', '>'), ('</dtml-', '>'), ('<!--#', '-->'),
                ('&dtml-', ';'), ('&dtml.', ';'))
EPFS_OPENERS = (('%(', ')'),)


def openers(cls):
    return EPFS_OPENERS if cls == 'String' else HTML_OPENERS


ENTITY_BODY = frozenset('abcdefghijklmnopqrstuvwxyzABCDEFGHIJKLMNOPQRSTUVWXYZ'
                        '0123456789-_.')


def possible_entity_at(s, i):
    """s[i:] starts with '&dtml-' or '&dtml.': can an entity start here?"""
    e = s.find(';', i + 5)
    if e < 0:
        return False
    body = s[i + 5:e]
    if not all(c in ENTITY_BODY for c in body):
        return False
    # a reference names a variable: '&dtml-' NAME ';' or '&dtml.' FORMATS '-'
    # NAME ';' with a non-empty NAME; '&dtml-;', '&dtml.x;' and '&dtml.x-;'
    # name nothing and are text
    if body[0] == '-':
        return len(body) > 1
    dash = body.find('-')
    return 0 <= dash < len(body) - 1


import re

EPFS_FMT = re.compile(r'[0-9]*[.]?[0-9]*[a-zA-Z]|[\[\]!]')


def possible_epfs_at(s, i):
    """s[i:] starts with '%(': can a tag start here?  Only if some later
    ')' is directly followed by a format."""
    e = s.find(')', i + 2)
    while e >= 0:
        if EPFS_FMT.match(s, e + 1):
            return True
        e = s.find(')', e + 1)
    return False


def definitely_tag_free(cls, s):
    for op, closer in openers(cls):
        i = s.find(op)
        if op.startswith('&dtml') or op == '%(':
            possible = possible_entity_at if op != '%(' else possible_epfs_at
            while i >= 0:
                if possible(s, i):
                    return False
                i = s.find(op, i + 1)
            continue
        if i >= 0 and s.find(closer, i + len(op)) >= 0:
            return False
    return True


def cleanly_tagged(cls, src, spans):
    starts = {a for a, b, edge in spans}
    for op, closer in openers(cls):
        i = src.find(op)
        while i >= 0:
            if i not in starts:
                if op.startswith('&dtml'):
                    if possible_entity_at(src, i):
                        return False
                elif op == '%(':
                    if possible_epfs_at(src, i):
                        return False
                elif src.find(closer, i + len(op)) >= 0:
                    return False
            i = src.find(op, i + 1)
    # no opener may start inside an emitted tag either (apart from the tag's
    # own start)
    for a, b, edge in spans:
        inner = src[a + 1:b]
        for op, closer in openers(cls):
            if op in inner:
                return False
    return True
