"""C19 - bytes in mixed output decode with the template encoding; str() of
inserted values is safe.

Family enc:  texts (every Latin-1 character, a BMP boundary set, astral
             characters, all pairs over a 12-character subset) x encodings
             (utf-8, latin-1, cp1252, utf-16) x insertion contexts (top
             level, html-quoted simple/full, in body 1/2 iterations, if,
             with, let, try+else, try+finally, try handler, nested):
             rendering with x = s.encode(enc) on a template created with
             encoding=enc must equal rendering with x = s, and be a str.
Family ustr: one value of every built-in type, classes, exceptions with
             0..2 arguments, objects with custom __str__: inserted as
             str(v) / the exception message; conversion raises only when
             the value's own __str__ misbehaves.
"""

import abc
import enum
import itertools
from decimal import Decimal
from fractions import Fraction

from ..core import HarnessFault
from ..core import Res

ID = 'C19'
LEVEL = 'exploration'
MANIFEST = {
    'technique': 'exhaustive enumeration of a character set (singly and in '
                 'pairs) x encodings x insertion contexts; differential '
                 'oracle bytes-vs-text; enumeration of value types for the '
                 'string conversion',
    'text': 'Every Latin-1 character, ~200 BMP boundary characters and 20 '
            'astral characters singly, and all pairs over a 12-character '
            'subset, encoded in utf-8 / latin-1 / cp1252 / utf-16 where '
            'possible, are inserted as bytes through 51 contexts (top '
            'level, entity, html_quote full path, in body with 1 and 2 '
            'elements, if, with, let, try with else, try with finally, try '
            'handler, nested in+if, sub-template, adjacent all-bytes pieces, '
            'bytes next to text values, SSI and EPFS syntax, elif / else / '
            'in-else branches, raise message, tree body) into a template created '
            'with that encoding; the result must be a str equal to the '
            'rendering with the text itself.  A table of ~45 values of all '
            'built-in types, classes, exceptions with 0..2 arguments and '
            'objects with well- and ill-behaved __str__ is inserted by name '
            'and by expression and compared with str(v) / the message.',
    'more': 'Also: exceptions whose single argument is false (0, None, [], ...); numbers whose string form is long; compatibility forms of the markup characters and line separators in the text set.',
    'note': 'Trusted: Python codecs; str(v) as the definition of the string '
            'form.  Every context contains literal text around the '
            'insertion, so the rendering always has more than one piece.',
}
RULE = ('family enc: characters x encodings x contexts as above; family '
        'ustr: the value table x {by name, by expression}.  An enc run is '
        'non-trivial when the encoded bytes differ from their latin-1 '
        'reading (i.e. a wrong decoding would be visible).')
ASSUMPTIONS = ['utf-16 bytes carry a BOM (str.encode("utf-16"))']
CASE_CPU_SECONDS = 120.0
CASE_CPU_SECONDS_QUICK = 15.0

ENCODINGS = ('utf-8', 'latin-1', 'cp1252', 'utf-16')

CONTEXTS = {
    'top': 'a<dtml-var x>b',
    'entity': 'a&dtml-x;b',
    'hq-full': 'a<dtml-var x html_quote size=999>b',
    'fmt-hq': 'a<dtml-var x fmt=html-quote>b',
    'in1': 'a<dtml-in one><dtml-var x></dtml-in>b',
    'in2': 'a<dtml-in two><dtml-var x>,</dtml-in>b',
    'in1-only': 'a<dtml-in one>[<dtml-var x>]</dtml-in>b',
    'if': 'a<dtml-if t><dtml-var x></dtml-if>b',
    'with': 'a<dtml-with o><dtml-var x></dtml-with>b',
    'let': 'a<dtml-let y=x><dtml-var y></dtml-let>b',
    'try-else': 'a<dtml-try><dtml-var x><dtml-except>h<dtml-else>e</dtml-try>b',
    'try-else2': 'a<dtml-try>t<dtml-except>h<dtml-else><dtml-var x></dtml-try>b',
    'try-finally': 'a<dtml-try><dtml-var x><dtml-finally>f</dtml-try>b',
    'try-finally2': 'a<dtml-try>t<dtml-finally><dtml-var x></dtml-try>b',
    'handler': 'a<dtml-try><dtml-var boom><dtml-except><dtml-var x></dtml-try>b',
    'nested': 'a<dtml-in two><dtml-if t><dtml-var x></dtml-if></dtml-in>b',
    'sub': 'a<dtml-var sub>b',
    'unless': 'a<dtml-unless f><dtml-var x></dtml-unless>b',
    # pieces that are all bytes / bytes next to text values, no literal
    # text between them
    'adjacent': 'a<dtml-var x><dtml-var x>b',
    'adjacent-mixed': 'a<dtml-var s><dtml-var x><dtml-var s>b',
    'items-only': 'a<dtml-in xs><dtml-var sequence-item></dtml-in>b',
    'items-only-bare': '<dtml-in xs><dtml-var sequence-item></dtml-in>',
    'if-only': 'a<dtml-if t><dtml-var x><dtml-var x></dtml-if>b',
    'try-both': 'a<dtml-try><dtml-var x><dtml-except>h<dtml-else>'
                '<dtml-var x></dtml-try>b',
    'return-piece': 'a<dtml-var subx>b',
    'ssi': 'a<!--#var x-->b<!--#var x html_quote-->c',
    'epfs': 'EPFS:a%(x)sb%(x html_quote)sc',
    'epfs-in': 'EPFS:a%(in two)[%(x)s,%(in)]b',
    'elif': 'a<dtml-if f>n<dtml-elif t><dtml-var x><dtml-else>e</dtml-if>b',
    'else': 'a<dtml-if f>n<dtml-else><dtml-var x></dtml-if>b',
    'in-else': 'a<dtml-in none><dtml-else><dtml-var x></dtml-in>b',
    'in-batch': 'a<dtml-in two size=1><dtml-var x></dtml-in>b',
    'raise-msg': 'a<dtml-try><dtml-raise KeyError><dtml-var x></dtml-raise>'
                 '<dtml-except><dtml-var error_value></dtml-try>b',
    'comment-near': 'a<dtml-comment>c</dtml-comment><dtml-var x>b',
    # secondary branches whose body has several pieces
    'in-else-text': 'a<dtml-in none>n<dtml-else>[<dtml-var x>]</dtml-in>b',
    'inb-else-text': 'a<dtml-in none size=2>n<dtml-else>[<dtml-var x>]'
                     '</dtml-in>b',
    'in-previous-else': 'a<dtml-in two size=1 previous>p<dtml-else>'
                        '[<dtml-var x>]</dtml-in>b',
    'in-next-else': 'a<dtml-in two size=5 next>n<dtml-else>[<dtml-var x>]'
                    '</dtml-in>b',
    'in-next-body': 'a<dtml-in two size=1 next>[<dtml-var x>]</dtml-in>b',
    'if-else-text': 'a<dtml-if f>n<dtml-else>[<dtml-var x>]</dtml-if>b',
    'elif-text': 'a<dtml-if f>n<dtml-elif t>[<dtml-var x>]</dtml-if>b',
    'unless-text': 'a<dtml-unless f>[<dtml-var x>]</dtml-unless>b',
    'with-text': 'a<dtml-with o>[<dtml-var x>]</dtml-with>b',
    'let-text': 'a<dtml-let y=x>[<dtml-var y>]</dtml-let>b',
    'try-else-text': 'a<dtml-try>t<dtml-except>h<dtml-else>[<dtml-var x>]'
                     '</dtml-try>b',
    'handler-text': 'a<dtml-try><dtml-var boom><dtml-except>[<dtml-var x>]'
                    '</dtml-try>b',
    'finally-text': 'a<dtml-try>t<dtml-finally>[<dtml-var x>]</dtml-try>b',
    'in-hq-else': 'a<dtml-in none><dtml-else>[&dtml-x;]</dtml-in>b',
    'nested-text': 'a<dtml-in two><dtml-with o><dtml-if t>[<dtml-var x>]'
                   '</dtml-if></dtml-with></dtml-in>b',
    'tree': 'a<dtml-tree root><dtml-var x></dtml-tree>b',
    'tree-text': 'a<dtml-tree root>[<dtml-var x>]</dtml-tree>b',
}
QUOTING = ('entity', 'hq-full', 'fmt-hq', 'in-hq-else')


def charset():
    chars = [chr(i) for i in range(256)]
    bmp = set()
    for p in range(8, 16):
        for d in (-1, 0, 1):
            bmp.add((1 << p) + d)
    bmp.update([0x20AC, 0x2018, 0x2026, 0x0152, 0x017D, 0x0192, 0x02C6,
                0x2122, 0xD7FF, 0xE000, 0xFFFD, 0xFFFE, 0xFFFF, 0x0391,
                0x4E2D, 0x3042, 0xAC00, 0xFB01, 0xFEFF])
    # compatibility forms of the markup characters, the blanks and the line
    # separators beyond Latin-1, case-folding specials
    bmp.update([0xFF06, 0xFF1C, 0xFF1E, 0xFF02, 0xFF07, 0xFE64, 0xFE65,
                0xFE60, 0x2028, 0x2029, 0x3000, 0x2003, 0x200B, 0x1E9E,
                0x0130, 0x0131, 0x017F, 0x03C2, 0xFF11, 0x0663])
    for i in range(0x100, 0x100 + 150):
        bmp.add(i * 97 % 0xD700 + 0x100)
    chars += [chr(i) for i in sorted(bmp) if i >= 256 and
              not 0xD800 <= i <= 0xDFFF]
    astral = [0x10000, 0x10001, 0x1F600, 0x1F4A9, 0x1D11E, 0x20000, 0x2A6D6,
              0x2F800, 0xE0001, 0xF0000, 0xFFFFF, 0x100000, 0x10FFFD,
              0x10FFFF, 0x1F1E6, 0x1F468, 0x1FAE0, 0x10348, 0x13000, 0x16A40]
    chars += [chr(i) for i in astral]
    return chars


PAIR_CHARS = ['a', '<', '&', '"', '\xe9', '\xff', '\x80', '€', 'Œ',
              '中', '\U0001F600', '\n']


def cases(tier):
    chars = charset()
    for enc in ENCODINGS:
        for ctx in CONTEXTS:
            yield {'fam': 'enc', 'enc': enc, 'ctx': ctx, 'what': 'single'}
            yield {'fam': 'enc', 'enc': enc, 'ctx': ctx, 'what': 'pairs'}
            if tier == 'thorough':
                yield {'fam': 'enc', 'enc': enc, 'ctx': ctx,
                       'what': 'triples'}
    del chars
    yield {'fam': 'ustr'}


_t = {}


def template(ctx, enc):
    t = _t.get((ctx, enc))
    if t is None:
        from DocumentTemplate import HTML
        from DocumentTemplate import String
        src = CONTEXTS[ctx]
        if src.startswith('EPFS:'):
            t = String(src[5:], encoding=enc)
        else:
            t = HTML(src, encoding=enc)
        _t[(ctx, enc)] = t
    return t


class O:
    pass


class TNode:
    def __init__(self, kids):
        self.kids = kids

    def tpValues(self):
        return self.kids

    def tpId(self):
        return 'n'


class Resp:
    def setCookie(self, *a, **kw):
        pass


def boom():
    raise ValueError('boom')


def namespace(x, enc):
    from DocumentTemplate import HTML
    o = O()
    o.oa = 1
    import TreeDisplay  # noqa: F401
    return {'x': x, 'one': [1], 'two': [1, 2], 't': 1, 'f': 0, 'o': o,
            'boom': boom, 'sub': HTML('[<dtml-var x>]', encoding=enc),
            's': 'text-\xe9' if enc != 'cp1252' else 'text-e',
            'xs': [x, x, x], 'none': [],
            'subx': HTML('<dtml-var x>', encoding=enc),
            'root': TNode([TNode([TNode([])]), TNode([])]),
            'expand_all': 1, 'URL': 'http://h/',
            'RESPONSE': Resp()}


def render(ctx, enc, x):
    try:
        return template(ctx, enc)(**namespace(x, enc))
    except Exception as e:
        return e


def texts(what):
    if what == 'single':
        return charset()
    if what == 'pairs':
        return [a + b for a, b in itertools.product(PAIR_CHARS, repeat=2)]
    return [a + b + c for a, b, c in itertools.product(PAIR_CHARS, repeat=3)]


def run_enc(res, case):
    enc, ctx = case['enc'], case['ctx']
    n = nt = 0
    vals = [case['text']] if 'text' in case else texts(case['what'])
    for s in vals:
        try:
            raw = s.encode(enc)
        except UnicodeEncodeError:
            continue
        want = render(ctx, enc, s)
        # the same bytes first pass through a template of another encoding
        # (where they mean another text, or nothing): what this template
        # makes of them must not depend on that
        render(ctx, ENCODINGS[(ENCODINGS.index(enc) + 1) % len(ENCODINGS)],
               raw)
        got = render(ctx, enc, raw)
        n += 1
        if raw.decode('latin-1') != s:
            nt += 1
            if res.sample is None:
                res.sample = {'context': CONTEXTS[ctx], 'encoding': enc,
                              'text': s, 'bytes': repr(raw)}
        if isinstance(want, BaseException):
            res.violate('text-baseline', 'text-raises:%s' % ctx,
                        {'text': s, 'exception': repr(want)},
                        dict(case, text=s))
            continue
        if got != want or not isinstance(got, str):
            if isinstance(got, BaseException):
                kind = 'exc:' + type(got).__name__
            elif not isinstance(got, str):
                kind = 'type:' + type(got).__name__
            else:
                kind = 'decoding'
            res.violate('bytes-equal-text', '%s:%s%s' % (
                kind, ctx, ':' + enc if kind == 'decoding' else ''),
                        {'context': CONTEXTS[ctx], 'encoding': enc,
                         'text': s, 'bytes': repr(raw), 'with_bytes':
                         repr(got), 'with_text': repr(want)},
                        dict(case, text=s))
    res.evals = n
    res.nt_count = nt


# ---------------------------------------------------------------- ustr

class StrOK:
    def __str__(self):
        return 'str-ok \xe9'


class StrBytes:
    def __str__(self):
        return 'bytes-\xe9'.encode('utf-8')


class StrWrong:
    def __str__(self):
        return 42


class StrRaises:
    def __str__(self):
        raise KeyError('bad str')


class Plain:
    pass


class MyExc(Exception):
    pass


class Meta(type):
    pass


class WithMeta(metaclass=Meta):
    pass


class Abstract(abc.ABC):
    pass


class Colour(enum.Enum):
    RED = 1


def value_table():
    """(label, value, expected text or exception class name)"""
    plain = Plain()
    vals = [
        ('int', 42, '42'), ('negint', -7, '-7'), ('bigint', 10 ** 30, None),
        ('float', 1.5, '1.5'), ('complex', 1 + 2j, None), ('true', True,
                                                           'True'),
        # numbers whose string form is long
        ('float-sum', 0.1 + 0.2, None), ('float-third', 1 / 3, None),
        ('float-13', 12345.67890123, None), ('float-1e15', 1e15, None),
        ('float-1e12', 1000000000000.0, None), ('float-1e16', 1e16, None),
        ('float-time', 1727654400.123456, None), ('float-tiny', 1.5e-07,
                                                  None),
        ('float-negzero', -0.0, None), ('float-inf', float('inf'), None),
        ('float-nan', float('nan'), None), ('int-20', 12345678901234567890,
                                            None),
        ('decimal', Decimal('1234567.8901234567890123'), None),
        ('fraction', Fraction(1, 3), None),
        ('none', None, 'None'), ('list', [1, 'a'], None),
        ('tuple', (1, 2), None), ('dict', {'a': 1}, None),
        ('set', {1}, None), ('frozenset', frozenset([1]), None),
        ('range', range(3), None), ('bytearray', bytearray(b'ab'), None),
        ('memoryview', memoryview(b'ab'), None), ('slice', slice(1, 2), None),
        ('ellipsis', Ellipsis, None), ('notimplemented', NotImplemented,
                                       None),
        ('object', plain, None), ('str', 'text \xe9', 'text \xe9'),
        ('bytes', 'b\xe9'.encode('utf-8'), 'b\xe9'),
        ('class-builtin', int, None), ('class-user', Plain, None),
        ('class-exc', ValueError, None), ('class-userexc', MyExc, None),
        ('metaclass', type, None), ('class-custom-meta', WithMeta, None),
        ('class-abc', Abstract, None), ('class-enum', Colour, None),
        ('enum-member', Colour.RED, None), ('metaclass-user', Meta, None),
        ('function', boom, None), ('builtin-function', len, None),
        ('lambda', (lambda: 1), None), ('method', plain.__init__, None),
        ('module', itertools, None),
        ('exc0', ValueError(), ''), ('exc1', ValueError('m \xe9'), 'm \xe9'),
        ('exc1b', ValueError('m\xe9'.encode('utf-8')), 'm\xe9'),
        ('exc1int', ValueError(5), '5'),
        # a single argument that is false but has a string form
        ('exc1zero', ValueError(0), '0'), ('exc1none', KeyError(None), 'None'),
        ('exc1false', ValueError(False), 'False'),
        ('exc1fzero', ValueError(0.0), '0.0'),
        ('exc1list', ValueError([]), '[]'), ('exc1tuple', ValueError(()), '()'),
        ('exc1dict', MyExc({}), '{}'), ('exc1empty', ValueError(''), ''),
        ('exc1bempty', ValueError(b''), ''),
        ('excbase', KeyboardInterrupt('k'), 'k'),
        ('excnested', ValueError(ValueError('in')), 'in'),
        ('exc2', ValueError('a', 'b'), str(('a', 'b'))),
        ('exc2b', ValueError(b'a', 2), str((b'a', 2))),
        ('userexc1', MyExc('u'), 'u'),
        ('keyerror1', KeyError('k'), 'k'),
        ('oserror2', OSError(2, 'nf'), str((2, 'nf'))),
        ('str-ok', StrOK(), 'str-ok \xe9'),
        ('str-bytes', StrBytes(), 'bytes-\xe9'),
        ('str-wrong', StrWrong(), 'EXC'), ('str-raises', StrRaises(), 'EXC'),
    ]
    out = []
    for label, v, exp in vals:
        if exp is None:
            exp = str(v)
        out.append((label, v, exp))
    return out


def run_ustr(res, case):
    from DocumentTemplate import HTML
    n = nt = 0
    forms = {'name': HTML('a<dtml-var x>b'), 'expr': HTML('a<dtml-var "x">b'),
             'in': HTML('a<dtml-in two><dtml-var "x">|</dtml-in>b'),
             'full': HTML('a<dtml-var "x" size=999>b')}
    for label, v, exp in value_table():
        if 'label' in case and case['label'] != label:
            continue
        for fname, t in forms.items():
            if fname == 'name' and (callable(v) or label == 'none'):
                continue           # called / special-cased by name lookup
            try:
                got = t(x=v, two=[1, 2])
            except Exception as e:
                got = e
            n += 1
            nt += 1
            if exp == 'EXC':
                ok = isinstance(got, BaseException)
                want = 'an exception (misbehaving __str__)'
            else:
                body = exp if fname != 'in' else (exp + '|') * 2
                want = 'a' + body + 'b'
                ok = got == want
            if not ok:
                kind = 'exc:' + type(got).__name__ \
                    if isinstance(got, BaseException) else 'text'
                res.violate('string-form', 'ustr:%s:%s' % (label, kind),
                            {'value': repr(v), 'form': fname,
                             'got': repr(got), 'expected': want},
                            {'fam': 'ustr', 'label': label})
    res.evals = n
    res.nt_count = nt
    res.sample = {'value': 'ValueError("a", "b")', 'form': 'a<dtml-var "x">b'}


def run(case):
    res = Res()
    if case['fam'] == 'enc':
        run_enc(res, case)
    else:
        run_ustr(res, case)
    res.outcome = case['fam']
    return res


def finalize(tier, agg):
    if agg['nontrivial'] < 5000:
        raise HarnessFault('vacuous: too few non-latin-1-equivalent runs')
    if len(charset()) < 450:
        raise HarnessFault('character set too small')
    return {'characters': len(charset()), 'contexts': len(CONTEXTS)}
