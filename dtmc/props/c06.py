"""C06 - compiling any source terminates and fails only with a located
ParseError.

Families
  tok     all token strings up to a length bound over a per-syntax alphabet
          of tag fragments, quotes and delimiters
  mut     a corpus of valid templates (every tag, multi-line) x every single
          mutation: delete / duplicate / swap-with-next at every character,
          every tag and every attribute
  prefix  every prefix of every corpus template
  pump    opener + token * n for n in {16, 24, 32, 64, 4096}; nesting
          openers up to depth 64
  gram    structural mutants whose validity is known by construction
          (unknown tag, unmatched end, missing end, misplaced / repeated
          continuation, bad attributes): must be rejected; the corpus itself
          must be accepted
"""

import itertools
import re

from ..core import CaseTimeout
from ..core import HarnessFault
from ..core import Res

ID = 'C06'
LEVEL = 'exploration'
MANIFEST = {
    'technique': 'exhaustive enumeration of token strings, of all single '
                 'mutations and prefixes of a template corpus and of pumped '
                 'families; every source compiled on the real parser under a '
                 'CPU watchdog; exception type, error location and '
                 'accept/reject judged',
    'text': 'Every token string of length <= 4 (quick) / <= 5 (thorough) '
            'over a 24-token alphabet '
            '(and 6 over a 16-token sub-alphabet) for HTML and EPFS syntax, every '
            'single character/tag/attribute mutation and every prefix of a '
            '~70-template corpus in three syntaxes, pumped families up to '
            'n = 4096 and a table of structural grammar violations are '
            'compiled with cook(): only ParseError (or SyntaxError when an '
            'expr= attribute is present) may escape, the message must name a '
            'tag that occurs in the source and starts on the reported line, '
            'every compile must finish within the CPU budget, corpus '
            'templates must be accepted and constructed grammar violations '
            'rejected.  Two systematic tables decide accept/reject: every '
            'candidate tag name (all substrings, one-character deletions '
            'and doublings of the known names) without arguments inside '
            'every block kind and at top level is accepted iff it is a '
            'continuation that block takes; every attribute of any tag '
            'offered to every tag is accepted iff the tag documents it, '
            'whatever was compiled before (accepting tags first / last); '
            '50 expression texts (parser errors, errors of later compiler '
            'passes, NUL byte, statements, valid ones) in 20 tag positions '
            'of three syntaxes are rejected iff Python rejects the '
            'expression, with a located ParseError (SyntaxError only for '
            'explicit expr=).',
    'more': 'Also: every grammar violation and every corpus template inside literal text that looks like the beginning of a tag / entity or contains characters that are line boundaries for str.splitlines() but not line ends; continuation arrangements with empty and line-end-only sections. Corpus: entity references directly behind end / continuation tags, variables called var, if, in, end.',
    'note': 'Trusted: the construction of the grammar-violation table (each '
            'entry violates exactly one stated rule); CPU budget 4 s per '
            'compile (normal: < 1 ms).  Nesting deeper than the Python '
            'recursion limit is out of scope.',
}
RULE = ('families tok / mut / prefix / pump / gram / gram2 (every candidate '
        'tag name - substrings, deletions, doublings of all known names - '
        'inside every block kind and at top level, three syntaxes) / gram3 '
        '(every attribute of any tag offered to every tag, accepting tags '
        'compiled first and last) as in the module '
        'docstring.  A source is non-trivial when the parser recognised at '
        'least one tag in it or rejected it (i.e. it is not plain text).')
ASSUMPTIONS = ['templates nested deeper than 64 levels are not generated '
               '(RecursionError at ~1000 levels is a resource limit, not a '
               'parse result)',
               'SyntaxError is accepted whenever the source contains an '
               'attribute name with "expr" (expr=, sort_expr, reverse_expr, '
               'branches_expr), also when it is given without a value']
CASE_CPU_SECONDS = 600.0
CASE_CPU_SECONDS_QUICK = 30.0
ONE_CPU_SECONDS = 4.0

HTML_TOK = ['<dtml-', '</dtml-', '<!--#', '-->', '>', '&dtml-', '&dtml.',
            ';', 'var', 'if', 'in', 'else', 'let', 'try', 'except', 'x',
            ' x', ' expr=', '"', '"1 +"', ' size=', ' orphan=2', '\n', '/']
EPFS_TOK = ['%(', ')', '[', ']', 's', '!', 'var', 'if', 'in', 'else', 'let',
            'try', 'except', 'x', ' x', ' expr=', '"', '"1 +"', ' size=',
            ' orphan=2', '\n', '/', ' ', '10.2f']
HTML_TOK16 = ['<dtml-', '</dtml-', '<!--#', '-->', '>', '&dtml-', ';', 'var',
              'if', 'in', 'else', ' x', ' expr=', '"', '\n', 'let']
EPFS_TOK16 = ['%(', ')', '[', ']', 's', 'var', 'if', 'in', 'else', ' x',
              ' expr=', '"', '\n', 'let', 'try', 'except']

CORPUS = [
    'plain text\nonly',
    # entity references directly behind end tags and continuation tags
    '<dtml-if a>x</dtml-if>&dtml.url_quote-b;&dtml-c;<dtml-in s>y'
    '<dtml-else>&dtml.upper.html_quote-d;</dtml-in>&dtml-e;\n'
    '<dtml-with o>z</dtml-with>&dtml.lower-f;',
    # variables called like the tag itself / like other tags
    '<dtml-var var>',
    '<dtml-var var upper>|<dtml-var if>|<dtml-var in size=3>|<dtml-var end>',
    '<dtml-var x>',
    '<dtml-var name=x>',
    '<dtml-var expr="x">',
    '<dtml-var "x + 1">',
    'a\n<dtml-var x fmt=s null="n" missing="m" size=3 etc="." lower upper\n'
    ' capitalize spacify thousands_commas html_quote url_quote sql_quote\n'
    ' url_quote_plus url_unquote url_unquote_plus newline_to_br>\nb',
    '<dtml-var x url>',
    '&dtml-x;',
    'a &dtml.url_quote.lower-x; b',
    '<dtml-call x>',
    '<dtml-call "x()">',
    '<dtml-return x>',
    '<dtml-return "1">',
    '<dtml-comment>\nignored <dtml-var x>\n</dtml-comment>',
    '<dtml-if x>\na\n</dtml-if>',
    '<dtml-if x>\na\n<dtml-else>\nb\n</dtml-if>',
    '<dtml-if x>\na\n<dtml-elif y>\nb\n<dtml-elif "z">\nc\n<dtml-else>\nd\n'
    '</dtml-if x>',
    '<dtml-if expr="x">a</dtml-if>',
    '<dtml-if x>\na\n<dtml-elif y>\nb\n<dtml-else x>\nc\n</dtml-if>',
    '<dtml-if x>a<dtml-elif y>b<dtml-elif z>c<dtml-else x>d</dtml-if x>',
    '<dtml-if y>q<dtml-else x>b</dtml-else>r</dtml-if>',
    '<dtml-unless x>\na\n</dtml-unless>',
    '<dtml-unless "x">a</dtml-unless>',
    '<dtml-in seq>\n<dtml-var sequence-item>\n</dtml-in>',
    '<dtml-in seq>\na\n<dtml-else>\nb\n</dtml-in seq>',
    '<dtml-in seq>\na\n<dtml-else seq>\nb\n</dtml-in>',
    '<dtml-in seq size=2 orphan=0>a<dtml-else seq>b</dtml-in seq>',
    '<dtml-in "seq" mapping no_push_item skip_unauthorized>\na\n</dtml-in>',
    '<dtml-in seq sort=a reverse prefix=p>\na\n</dtml-in>',
    '<dtml-in seq sort_expr="k" reverse_expr="r">\na\n</dtml-in>',
    '<dtml-in seq start=1 end=2 size=3 orphan=1 overlap=1>\na\n</dtml-in>',
    '<dtml-in seq size=3 previous>\na\n</dtml-in>',
    '<dtml-in seq size=3 next>\na\n<dtml-else>\nb\n</dtml-in>',
    '<dtml-in seq start=qs size=5>\n<dtml-var sequence-query>\n</dtml-in>',
    '<dtml-with x>\na\n</dtml-with>',
    '<dtml-tree x prefix=p sort=k reverse nowrap single>\na\n</dtml-tree>',
    '<dtml-tree expr="x" branches=kids id=ident url=u leaves=l header=h '
    'footer=f expand=e assume_children skip_unauthorized urlparam="a=1">'
    '<dtml-var p></dtml-tree>',
    '<dtml-with "x" mapping only>\na\n</dtml-with>',
    '<dtml-let a=b c="d + 1"\n  e=f>\n<dtml-var a>\n</dtml-let>',
    '<dtml-try>\na\n<dtml-except>\nb\n</dtml-try>',
    '<dtml-try>\na\n<dtml-except KeyError ValueError>\nb\n<dtml-except '
    'TypeError>\nc\n<dtml-except>\nd\n<dtml-else>\ne\n</dtml-try>',
    '<dtml-try>\na\n<dtml-finally>\nb\n</dtml-try>',
    '<dtml-raise type="KeyError">\nmsg\n</dtml-raise>',
    '<dtml-raise KeyError>msg</dtml-raise>',
    '<dtml-raise "KeyError">msg</dtml-raise>',
    '<dtml-if a>\n<dtml-in b>\n<dtml-with c>\n<dtml-let d=e>\n<dtml-try>\n'
    '<dtml-var f>\n<dtml-except>\ng\n</dtml-try>\n</dtml-let>\n</dtml-with>\n'
    '<dtml-else>\nh\n</dtml-in>\n<dtml-else>\ni\n</dtml-if>',
    'x < y & z > w "q" \'r\' <d <dtml <!-- &dt %(z)s',
    # apostrophes (any number) inside double-quoted values and expressions
    '<dtml-var a missing="don\'t know">\n<dtml-var b missing="won\'t tell">',
    '<dtml-var a null="it\'s">tail',
    '<dtml-if "x == \'a\'">y</dtml-if> it\'s <dtml-var b etc="\'">',
    '<dtml-in seq sort_expr="\'k\'">a</dtml-in>\'<dtml-var "\'q\'">',
]

EPFS_CORPUS = [
    'plain %% text (x) %s',
    '%(var)s',
    '%(var var)s and %(if)s and %(in size=3)s',
    '%(x)s',
    '%(x)10.2f and %(y lower upper)s',
    '%(var x fmt=s null="n" size=3 etc=".")s',
    '%(var "x + 1")s',
    '%(x html_quote)s',
    '%(call x)!',
    '%(return "1")!',
    '%(comment)[\nignored\n%(comment)]',
    '%(if x)[\na\n%(elif y)[\nb\n%(else)[\nc\n%(if x)]',
    '%(unless "x")[\na\n%(unless)]',
    '%(in seq mapping sort=a size=3 orphan=1)[\n%(sequence-item)s\n'
    '%(else)[\nb\n%(in)]',
    '%(with x only)[\na\n%(with)]',
    '%(let a=b c="d + 1")[\n%(a)s\n%(let)]',
    '%(try)[\na\n%(except KeyError)[\nb\n%(except)[\nc\n%(else)[\nd\n%(try)]',
    '%(try)[\na\n%(finally)[\nb\n%(try)]',
    '%(raise type="KeyError")[\nmsg\n%(raise)]',
]

HTML_TAG = re.compile(r'</?dtml-[^>]*>|&dtml[-.][^;]*;')
SSI_TAG = re.compile(r'<!--#.*?-->', re.S)
EPFS_TAG = re.compile(r'%\([^)]*\)[0-9.]*[a-z\[\]!]')


def to_ssi(src, endstyle):
    def sub(m):
        t = m.group(0)
        if t.startswith('&'):
            return t
        if t.startswith('</dtml-'):
            return '<!--#%s%s-->' % ('end' if endstyle else '/', t[7:-1])
        return '<!--#%s-->' % t[6:-1]
    return HTML_TAG.sub(sub, src)


def corpus():
    import TreeDisplay  # noqa: F401  registers the tree tag
    out = []
    for i, s in enumerate(CORPUS):
        out.append(('HTML', 'dtml%d' % i, s))
        out.append(('HTML', 'ssi%d' % i, to_ssi(s, i % 2)))
    for i, s in enumerate(EPFS_CORPUS):
        out.append(('String', 'epfs%d' % i, s))
    return out


# structural grammar violations, known by construction: (class, source)
BAD = [
    ('unknown tag', 'HTML', 'a<dtml-foo x>b'),
    ('unknown tag', 'HTML', 'a\n<!--#foo x-->b'),
    ('unknown tag', 'String', 'a%(foo x)[b%(foo)]'),
    ('unknown tag', 'HTML', '<dtml-var a missing="don\'t">b<dtml-foo x>'),
    ('missing end', 'HTML', '<dtml-var a null="it\'s"><dtml-in x>b'),
    ('unmatched end', 'HTML', 'a</dtml-if>b'),
    ('unmatched end', 'HTML', '<dtml-if x>a</dtml-in>'),
    ('unmatched end', 'HTML', 'a\n\n<!--#/if-->b'),
    ('unmatched end', 'HTML', 'a<!--#endin-->b'),
    ('unmatched end', 'String', 'a%(if x)]b'),
    ('missing end', 'HTML', 'a\n<dtml-if x>b'),
    ('missing end', 'HTML', '<dtml-in x><dtml-if y>b</dtml-if>'),
    ('missing end', 'HTML', '<!--#with x-->b'),
    ('missing end', 'String', 'a%(in x)[b'),
    ('misplaced continuation', 'HTML', 'a<dtml-elif x>b'),
    ('misplaced continuation', 'HTML', '<dtml-in x>a<dtml-elif y>b</dtml-in>'),
    ('misplaced continuation', 'HTML', '<dtml-if x>a<dtml-except>b</dtml-if>'),
    ('misplaced continuation', 'HTML', '<dtml-with x>a<dtml-else>b</dtml-with>'),
    ('misplaced continuation', 'HTML', 'a<dtml-except>b'),
    ('misplaced continuation', 'HTML', 'a<dtml-finally>b'),
    ('misplaced continuation', 'String', 'a%(elif x)[b'),
    ('repeated continuation', 'HTML',
     '<dtml-if x>a<dtml-else>b<dtml-else>c</dtml-if>'),
    ('repeated continuation', 'HTML',
     '<dtml-if x>a<dtml-else>b<dtml-elif y>c</dtml-if>'),
    ('repeated continuation', 'HTML',
     '<dtml-in x>a<dtml-else>b<dtml-else>c</dtml-in>'),
    ('repeated continuation', 'HTML',
     '<dtml-try>a<dtml-except>b<dtml-except>c</dtml-try>'),
    ('repeated continuation', 'HTML',
     '<dtml-try>a<dtml-except>b<dtml-else>c<dtml-else>d</dtml-try>'),
    ('repeated continuation', 'HTML',
     '<dtml-try>a<dtml-finally>b<dtml-finally>c</dtml-try>'),
    ('repeated continuation', 'HTML',
     '<dtml-try>a<dtml-except>b<dtml-finally>c</dtml-try>'),
    ('repeated continuation', 'HTML',
     '<dtml-try>a<dtml-else>b<dtml-except>c</dtml-try>'),
    ('unknown attribute', 'HTML', '<dtml-var x frobnicate>'),
    ('unknown attribute', 'HTML', '<dtml-var x frob=1>'),
    ('unknown attribute', 'HTML', '<dtml-in x\nfrob=1>a</dtml-in>'),
    ('unknown attribute', 'HTML', '<dtml-with x frob>a</dtml-with>'),
    ('unknown attribute', 'HTML', '<dtml-if x frob>a</dtml-if>'),
    ('unknown attribute', 'HTML', '<dtml-call x frob>'),
    ('unknown attribute', 'HTML', '<dtml-raise type=a frob=1>a</dtml-raise>'),
    ('unknown attribute', 'String', '%(x frob=1)s'),
    ('malformed attribute', 'HTML', '<dtml-var x =3>'),
    ('malformed attribute', 'HTML', '<dtml-var x ="a">'),
    ('malformed attribute', 'HTML', 'a\n<dtml-in x size=>a</dtml-in>'),
    ('malformed attribute', 'HTML', '<dtml-var x size= 3>'),
    ('malformed attribute', 'HTML', '<dtml-var x size=3=4>'),
    ('malformed attribute', 'HTML', '<dtml-if x = y>a</dtml-if>'),
    ('malformed attribute', 'HTML', '<!--#with x = -->a<!--#/with-->'),
    ('malformed attribute', 'HTML', '<dtml-call x =1>'),
    ('malformed attribute', 'HTML', '<dtml-let a=b =c>a</dtml-let>'),
    ('malformed attribute', 'String', '%(x =3)s'),
    ('duplicate attribute', 'HTML', '<dtml-var x size=1 size=2>'),
    ('duplicate attribute', 'HTML', '<dtml-in x size=1 size=2>a</dtml-in>'),
    ('duplicate attribute', 'HTML', '<dtml-var x name=y>'),
    ('duplicate attribute', 'HTML', '<dtml-var name=x name=y>'),
    ('missing name', 'HTML', '<dtml-var>'),
    ('missing name', 'HTML', '<dtml-var size=3>'),
    ('missing name', 'HTML', '<dtml-in>a</dtml-in>'),
    ('missing name', 'HTML', '<dtml-if>a</dtml-if>'),
    ('missing name', 'HTML', '<dtml-with>a</dtml-with>'),
    ('missing name', 'HTML', '<dtml-call>'),
    ('missing name', 'HTML', '<dtml-return>'),
    ('missing name', 'HTML', '<dtml-raise>a</dtml-raise>'),
    ('missing name', 'HTML', '<dtml-if x>a<dtml-elif>b</dtml-if>'),
    ('name and expr', 'HTML', '<dtml-var x expr="y">'),
    ('name and expr', 'HTML', '<dtml-var name=x expr="y">'),
    ('name and expr', 'HTML', '<dtml-var "x" expr="y">'),
    ('name and expr', 'HTML', '<dtml-if x expr="y">a</dtml-if>'),
    ('name and expr', 'HTML', '<dtml-in x expr="y">a</dtml-in>'),
    ('name and expr', 'HTML', '<dtml-with x expr="y">a</dtml-with>'),
    ('name and expr', 'HTML', '<dtml-call x expr="y">'),
    ('batch option without batch', 'HTML', '<dtml-in x orphan=1>a</dtml-in>'),
    ('batch option without batch', 'HTML', '<dtml-in x overlap=1>a</dtml-in>'),
    ('batch option without batch', 'HTML', '<dtml-in x previous>a</dtml-in>'),
    ('batch option without batch', 'HTML', '<dtml-in x next>a</dtml-in>'),
    ('non-simple prefix', 'HTML', '<dtml-tree x prefix="a-b">a</dtml-tree>'),
    ('non-simple prefix', 'HTML', '<dtml-tree x prefix="1a">a</dtml-tree>'),
    ('unknown attribute', 'HTML', '<dtml-tree x frob=1>a</dtml-tree>'),
    ('missing end', 'HTML', '<dtml-tree x>a'),
    ('non-simple prefix', 'HTML', '<dtml-in x prefix="a-b">a</dtml-in>'),
    ('non-simple prefix', 'HTML', '<dtml-in x prefix="1a">a</dtml-in>'),
    ('non-simple prefix', 'HTML', '<dtml-in x\n prefix="a b">\n\n</dtml-in>'),
    ('attribute needs value', 'HTML', '<dtml-in x sort_expr>a</dtml-in>'),
    ('else name mismatch', 'HTML', '<dtml-in x>a<dtml-else y>b</dtml-in>'),
    ('bad let', 'HTML', '<dtml-let x>a</dtml-let>'),
    ('bad let', 'HTML', '<dtml-let x="1 +">a</dtml-let>'),
    ('bad expression shorthand', 'HTML', '<dtml-var "1 +">'),
    ('bad expression shorthand', 'HTML', '<dtml-if "1 +">a</dtml-if>'),
    ('bad expression shorthand', 'HTML', 'a\n\n<dtml-in "1 +">a\n</dtml-in>'),
    ('bad expression shorthand', 'HTML', '<dtml-with "(">a</dtml-with>'),
    ('bad expression shorthand', 'HTML', '<dtml-call ")">'),
    ('bad expression shorthand', 'HTML', '<dtml-return "1 +">'),
    ('bad expression shorthand', 'HTML', '<dtml-raise "1 +">a</dtml-raise>'),
    ('bad expression shorthand', 'HTML', '<dtml-unless "1 +">a</dtml-unless>'),
]


# systematic part of clause (iv): every candidate tag name without arguments
# inside every block kind and at top level.  Reference: the source is valid
# only if the name is a continuation the enclosing block accepts there.
KNOWN = ['var', 'call', 'return', 'comment', 'if', 'elif', 'else', 'unless',
         'in', 'with', 'let', 'try', 'except', 'finally', 'raise', 'tree']
GRAM2_BLOCKS = [('if', 'x'), ('unless', 'x'), ('in', 'x'), ('with', 'x'),
                ('let', 'a=b'), ('try', ''), ('raise', 'x'), ('comment', ''),
                (None, '')]
GRAM2_ACCEPT = {('if', 'else'), ('in', 'else'), ('try', 'except'),
                ('try', 'finally')}
GRAM2_OPEN = {('try', 'else')}      # else without except: not fixed


def gram2_names():
    out = []
    for k in KNOWN:
        cand = {k, k + k[-1], k + 'x', 'x' + k, k.upper(), k.capitalize()}
        for i in range(len(k)):
            for j in range(i + 1, len(k) + 1):
                cand.add(k[i:j])                 # every substring
            cand.add(k[:i] + k[i + 1:])          # one character deleted
            cand.add(k[:i] + k[i] + k[i:])       # one character doubled
        out.extend(sorted(c for c in cand if c))
    seen = []
    for c in out:
        if c not in seen:
            seen.append(c)
    return seen


def gram2_sources(block, args, name):
    """-> [(cls, source)] in the three syntaxes"""
    a = (' ' + args) if args else ''
    if block is None:
        return [('HTML', 'a<dtml-%s>b' % name),
                ('HTML', 'a<!--#%s-->b' % name),
                ('String', 'a%%(%s)[b' % name)]
    return [('HTML', '<dtml-%s%s>a<dtml-%s>b</dtml-%s>'
             % (block, a, name, block)),
            ('HTML', '<!--#%s%s-->a<!--#%s-->b<!--#/%s-->'
             % (block, a, name, block)),
            ('String', '%%(%s%s)[a%%(%s)[b%%(%s)]'
             % (block, a, name, block))]


# attribute table (clause iv, "attributes the tag does not accept"): every
# attribute of any tag offered to every tag, in both orders of compilation
# (the tags that accept it first / last), so that acceptance cannot depend
# on what was compiled before
MODIFIERS = ['lower', 'upper', 'capitalize', 'spacify', 'thousands_commas',
             'html_quote', 'url_quote', 'url_quote_plus', 'url_unquote',
             'url_unquote_plus', 'sql_quote', 'newline_to_br']
TAG_ATTRS = {
    'var': set(['fmt', 'null', 'missing', 'size', 'etc', 'url'] + MODIFIERS),
    'call': set(), 'return': set(), 'if': set(), 'unless': set(),
    'in': {'start', 'end', 'size', 'orphan', 'overlap', 'mapping',
           'no_push_item', 'skip_unauthorized', 'previous', 'next', 'sort',
           'reverse', 'sort_expr', 'reverse_expr', 'prefix'},
    'with': {'mapping', 'only'},
    'raise': set(),
}
BLOCK_TAGS = ('if', 'unless', 'in', 'with', 'raise')
ATTR_TEXT = {'fmt': 'fmt=s', 'null': 'null="n"', 'missing': 'missing="m"',
             'size': 'size=5', 'etc': 'etc="e"', 'start': 'start=1',
             'end': 'end=9', 'orphan': 'size=5 orphan=1',
             'overlap': 'size=5 overlap=1', 'previous': 'size=5 previous',
             'next': 'size=5 next', 'sort': 'sort=k',
             'sort_expr': 'sort_expr="k"', 'reverse_expr': 'reverse_expr="r"',
             'prefix': 'prefix=p'}


def gram3_attrs():
    seen = []
    for t in ('var', 'in', 'with'):
        for a in sorted(TAG_ATTRS[t]):
            if a not in seen:
                seen.append(a)
    return seen


def gram3_source(tag, attr, syntax):
    args = 'x ' + ATTR_TEXT.get(attr, attr)
    names = [w.split('=')[0] for w in args.split()[1:]]
    valid = all(n in TAG_ATTRS[tag] for n in names)
    if syntax == 'dtml':
        src = '<dtml-%s %s>' % (tag, args)
        if tag in BLOCK_TAGS:
            src += 'a</dtml-%s>' % tag
        return 'HTML', src, valid
    if syntax == 'ssi':
        src = '<!--#%s %s-->' % (tag, args)
        if tag in BLOCK_TAGS:
            src += 'a<!--#/%s-->' % tag
        return 'HTML', src, valid
    if tag in BLOCK_TAGS:
        return 'String', '%%(%s %s)[a%%(%s)]' % (tag, args, tag), valid
    return 'String', '%%(%s %s)%s' % (tag, args,
                                     's' if tag == 'var' else '!'), valid


# every arrangement of up to three continuation tags inside try / if / in
GRAM4 = {
    'try': ['except', 'except KeyError', 'except ValueError', 'else',
            'finally'],
    'if x': ['elif y', 'elif z', 'else'],
    'in x': ['else'],
}


def gram4_valid(block, seq):
    """True / False / None (= the statement leaves it open)"""
    if block == 'try':
        if not seq:
            return None                   # try without any continuation
        if 'finally' in seq:
            return seq == ('finally',)
        if seq.count('else') > 1 or seq.count('except') > 1:
            return False
        if 'else' in seq and seq[-1] != 'else':
            return False
        if seq == ('else',):
            return None                   # else without except: open
        if 'except' in seq and seq[-1 - ('else' in seq)] != 'except':
            return None                   # bare except not last: open
        if len(set(seq)) != len(seq):
            return None                   # the same named handler twice
        return True
    if block == 'if x':
        if seq.count('else') > 1:
            return False
        if 'else' in seq and seq[-1] != 'else':
            return False
        return True
    return len(seq) <= 1


GRAM4_BODIES = ('digits', 'empty', 'newline')


def gram4_source(block, seq, syntax, body='digits'):
    """body: what stands between the tags -- a digit, nothing at all, or a
    line end only (which the parser drops after a block tag)"""
    name = block.split()[0]

    def b(i):
        return {'digits': str(i), 'empty': '', 'newline': ' \n'}[body]
    first = 'a' if body == 'digits' else b(0)
    if syntax == 'dtml':
        return 'HTML', 'p\n\n<dtml-%s>%s' % (block, first) + ''.join(
            '<dtml-%s>%s' % (t, b(i)) for i, t in enumerate(seq)) + \
            '</dtml-%s>q' % name
    if syntax == 'ssi':
        return 'HTML', 'p\n\n<!--#%s-->%s' % (block, first) + ''.join(
            '<!--#%s-->%s' % (t, b(i)) for i, t in enumerate(seq)) + \
            '<!--#/%s-->q' % name
    return 'String', 'p\n\n%%(%s)[%s' % (block, first) + ''.join(
        '%%(%s)[%s' % (t, b(i)) for i, t in enumerate(seq)) + \
        '%%(%s)]q' % name


# literal text that looks like the beginning of a tag or entity but is text
# under every reading (no terminator follows): put in front of / behind a
# source it must not change whether the source is accepted
TEXT_CONTEXTS = {
    'HTML': [('&dtml-x ', ''), ('&dtml.a ', ''), ('&dtml-', ''),
             ('<dtml ', ''), ('<!-- ', ''), ('&dtml-\n', ''),
             ('', ' &dtml-x'), ('', '<dtml-'), ('', '<!--#'), ('', '&dtml.'),
             # characters that are line boundaries for str.splitlines()
             # but not line ends: lines are counted in \n
             ('a\rb', ''), ('\x0c', ''), ('\x0b\x1c\x1d\x1e', ''),
             ('\x85\u2028\u2029', ''), ('\r\n\r', '')],
    'String': [('% ', ''), ('%%', ''), ('%\n', ''), ('', '%('), ('', '%'),
               ('a\rb', ''), ('\x0c\x0b', ''), ('\x85\u2028', ''),
               ('\r\n\r', '')],
}


# expression texts (no double quote inside): parser-level errors, errors that
# only a later compiler pass reports, a NUL byte, statements, and valid ones
EXPR_TEXTS = ['1 +', '(', ')', '(yield)', 'f(a=1, a=2)',
              '(x := 1 for x in y)', 'await x', 'f(__debug__=1)', 'x\x00',
              'lambda: (yield)', 'return 1', 'x = 1', 'import os',
              'None = 1', 'f(**a, *b)', 'a if b', '1 2', 'x.', '[1,', 'not',
              '0x', '1__0', 'a ? b', '$', 'x y', '{1:}',
              'f(a for a in b, 1)', 'continue', 'del x', '*x', 'print x',
              'yield', 'x := 1', "'", '\\', 'x for x in y', 'a, *b = c',
              '[*a for a in b]', 'f(a)(', "'%s' %", 'not not', 'a b c',
              'x + 1', 'f(a, b=1)', '(x, y)', "'a' 'b'", '[i for i in x]',
              'x if y else z', 'lambda a: a', ' x ']
EXPR_TAGS = [
    ('HTML', '<dtml-var "%s">', 0), ('HTML', 'a\n<dtml-if "%s">a</dtml-if>', 0),
    ('HTML', '<dtml-if x>a<dtml-elif "%s">b</dtml-if>', 0),
    ('HTML', '<dtml-unless "%s">a</dtml-unless>', 0),
    ('HTML', '<dtml-in "%s">a</dtml-in>', 0),
    ('HTML', '<dtml-with "%s">a</dtml-with>', 0),
    ('HTML', '<dtml-call "%s">', 0), ('HTML', '<dtml-return "%s">', 0),
    ('HTML', '<dtml-raise "%s">a</dtml-raise>', 0),
    ('HTML', '<dtml-let x="%s">a</dtml-let>', 0),
    ('HTML', '<!--#var "%s"-->', 0), ('HTML', '\n<!--#if "%s"-->a<!--#/if-->', 0),
    ('String', '%%(var "%s")s', 0), ('String', '%%(if "%s")[a%%(if)]', 0),
    ('String', '%%(call "%s")!', 0),
    # explicit expr=: a SyntaxError may surface as such
    ('HTML', '<dtml-var expr="%s">', 1),
    ('HTML', '<dtml-in x sort_expr="%s">a</dtml-in>', 1),
    ('HTML', '<dtml-in x reverse_expr="%s">a</dtml-in>', 1),
    ('HTML', '<dtml-tree x branches_expr="%s">a</dtml-tree>', 1),
    ('String', '%%(var expr="%s")s', 1)]


def python_rejects(text):
    for t in (text, text.strip()):
        try:
            compile(t, '<expr>', 'eval')
            return False
        except (SyntaxError, ValueError):
            pass
    return True


def cook(cls, src):
    """-> ('ok', None) | ('exc', exception)"""
    import signal

    import DocumentTemplate
    from ..core import CaseTimeout as CT
    signal.setitimer(signal.ITIMER_VIRTUAL, ONE_CPU_SECONDS)
    try:
        try:
            t = getattr(DocumentTemplate, cls)(src)
            t.cook()
        finally:
            signal.setitimer(signal.ITIMER_VIRTUAL, 0)
    except CT:
        return ('timeout', None)
    except Exception as e:
        return ('exc', e)
    return ('ok', t._v_blocks)


def unquote(cls, text):
    if cls != 'HTML':
        return text
    for a, b in (('&lt;', '<'), ('&gt;', '>'), ('&quot;', '"'),
                 ('&amp;', '&')):
        text = text.replace(a, b)
    return text


def judge(res, cls, src, fam, sub=None):
    """clauses (i)-(iii) on one source; returns outcome string"""
    from DocumentTemplate.DT_Util import ParseError
    kind, exc = cook(cls, src)
    case = sub or {'fam': 'one', 'cls': cls, 'src': src}
    if kind == 'timeout':
        res.violate('termination', 'timeout:%s:%s' % (cls, fam),
                    {'source': src[:300], 'len': len(src)}, case)
        return 'timeout'
    if kind == 'ok':
        if exc == [src] or (not src and not exc):
            return 'accepted-plain'         # no tag recognised
        return 'accepted'
    if isinstance(exc, ParseError):
        msg = str(exc.args[0]) if exc.args else ''
        i2 = msg.rfind(', on line ')
        i1 = msg.find(', for tag ')
        m = re.match(r', on line (\d+) of ', msg[i2:]) if i2 >= 0 else None
        if i1 < 0 or i2 < i1 or not m:
            res.violate('error-format', 'format:%s' % cls,
                        {'source': src[:300], 'message': msg[:300]}, case)
            return 'rejected'
        tag = unquote(cls, msg[i1 + len(', for tag '):i2])
        line = int(m.group(1))
        starts = []
        pos = src.find(tag)
        while pos >= 0 and tag:
            starts.append(src.count('\n', 0, pos) + 1)
            pos = src.find(tag, pos + 1)
        if not starts:
            res.violate('error-location', 'tag-not-in-source:%s' % cls,
                        {'source': src[:300], 'tag': tag, 'message': msg[:300]},
                        case)
        elif line not in starts:
            # is the reported line that of the block's closing tag?
            res.violate('error-location', 'wrong-line:%s:%s' % (
                cls, 'later-than-tag' if line > max(starts) else 'other'),
                        {'source': src[:300], 'tag': tag, 'reported': line,
                         'tag_starts_on': starts, 'message': msg[:300]}, case)
        return 'rejected'
    if isinstance(exc, SyntaxError) and 'expr' in src:
        return 'syntaxerror'
    res.violate('exception-type',
                'exc:%s:%s' % (type(exc).__name__, cls),
                {'source': src[:300], 'exception': repr(exc)[:300]}, case)
    return 'crash'


def mutations(src, tagre):
    n = len(src)
    for i in range(n):
        yield 'del-char', src[:i] + src[i + 1:]
        yield 'dup-char', src[:i + 1] + src[i] + src[i + 1:]
        if i + 1 < n:
            yield 'swap-char', src[:i] + src[i + 1] + src[i] + src[i + 2:]
    tags = [(m.start(), m.end()) for m in tagre.finditer(src)]
    for j, (a, b) in enumerate(tags):
        yield 'del-tag', src[:a] + src[b:]
        yield 'dup-tag', src[:b] + src[a:b] + src[b:]
        if j + 1 < len(tags):
            c, d = tags[j + 1]
            yield 'swap-tag', src[:a] + src[c:d] + src[b:c] + src[a:b] + src[d:]
        # attributes
        inner = src[a:b]
        parts = [(m.start(), m.end()) for m in
                 re.finditer(r'[^\s"]+(?:="[^"]*"|=[^\s">]+)?|"[^"]*"',
                             inner)]
        for k, (p, q) in enumerate(parts[1:], 1):
            yield 'del-attr', src[:a] + inner[:p] + inner[q:] + src[b:]
            yield 'dup-attr', src[:a] + inner[:q] + ' ' + inner[p:q] + \
                inner[q:] + src[b:]
            if k + 1 < len(parts):
                r, s = parts[k + 1]
                yield 'swap-attr', src[:a] + inner[:p] + inner[r:s] + \
                    inner[q:r] + inner[p:q] + inner[s:] + src[b:]


PUMP_OPENERS = {
    'HTML': ['<dtml-var ', '<dtml-var "', '<dtml-in x ', '<dtml-let ',
             '<dtml-', '</dtml-', '<!--#var ', '<!--#', '&dtml-', '&dtml.',
             '<dtml-var x size=', '<dtml-if x>', ''],
    'String': ['%(', '%(x ', '%(x "', '%(var ', '%(in x)[', '%(x fmt=', ''],
}


def cases(tier):
    yield {'fam': 'exprs'}
    for cls, toks in (('HTML', HTML_TOK), ('String', EPFS_TOK)):
        for a in range(len(toks)):
            for b in range(len(toks)):
                yield {'fam': 'tok', 'cls': cls, 'pre': [a, b], 'n': 4,
                       'alpha': 'full'}
    if tier == 'thorough':
        for cls, toks in (('HTML', HTML_TOK), ('String', EPFS_TOK)):
            for a in range(len(toks)):
                for b in range(len(toks)):
                    for c in range(len(toks)):
                        yield {'fam': 'tok5', 'cls': cls, 'pre': [a, b, c],
                               'n': 5, 'alpha': 'full'}
        for cls, toks in (('HTML', HTML_TOK16), ('String', EPFS_TOK16)):
            for a in range(len(toks)):
                for b in range(len(toks)):
                    yield {'fam': 'tok6', 'cls': cls, 'pre': [a, b], 'n': 6,
                           'alpha': '16'}
    for i, (cls, name, src) in enumerate(corpus()):
        yield {'fam': 'mut', 'corpus': i}
        yield {'fam': 'prefix', 'corpus': i}
    for cls in ('HTML', 'String'):
        for oi in range(len(PUMP_OPENERS[cls])):
            yield {'fam': 'pump', 'cls': cls, 'opener': oi}
    yield {'fam': 'gram'}
    for bi in range(len(GRAM2_BLOCKS)):
        yield {'fam': 'gram2', 'block': bi}
    for attr in gram3_attrs():
        yield {'fam': 'gram3', 'attr': attr}
    for block in GRAM4:
        yield {'fam': 'gram4', 'block': block}


def alphabet(case):
    if case['cls'] == 'HTML':
        return HTML_TOK if case['alpha'] == 'full' else HTML_TOK16
    return EPFS_TOK if case['alpha'] == 'full' else EPFS_TOK16


def run(case):
    res = Res()
    fam = case['fam']
    outcomes = {}
    n = 0

    def note(o, src=None):
        nonlocal n
        n += 1
        outcomes[o] = outcomes.get(o, 0) + 1
        if o != 'accepted-plain' and res.sample is None and src:
            res.sample = {'family': fam, 'source': src[:120], 'outcome': o}

    if fam == 'one':
        judge(res, case['cls'], case['src'], 'one', case)
        res.nontrivial = True
        return res
    if fam in ('tok5', 'tok6'):
        # exactly n tokens (shorter strings are covered by family tok)
        toks = alphabet(case)
        pre = ''.join(toks[i] for i in case['pre'])
        cls = case['cls']
        for rest in itertools.product(toks, repeat=case['n'] -
                                      len(case['pre'])):
            src = pre + ''.join(rest)
            note(judge(res, cls, src, 'tok'), src)
        fam = 'tok'
    elif fam == 'tok':
        toks = alphabet(case)
        pre = ''.join(toks[i] for i in case['pre'])
        cls = case['cls']
        # all strings of length <= n: shorter ones are covered by the cases
        # whose prefix pair starts them; emit length-2 .. n here
        for k in range(0, case['n'] - 1):
            for rest in itertools.product(toks, repeat=k):
                src = pre + ''.join(rest)
                note(judge(res, cls, src, 'tok'), src)
        if case['pre'] == [0, 0]:
            for t in toks:          # length 0 and 1
                note(judge(res, cls, t, 'tok'), t)
            note(judge(res, cls, '', 'tok'))
    elif fam in ('mut', 'prefix'):
        cls, name, src = corpus()[case['corpus']]
        tagre = EPFS_TAG if cls == 'String' else (
            SSI_TAG if name.startswith('ssi') else HTML_TAG)
        o = judge(res, cls, src, 'corpus')
        if o not in ('accepted', 'accepted-plain'):
            res.violate('accept-valid', 'corpus-rejected:%s' % name,
                        {'source': src}, {'fam': 'one', 'cls': cls,
                                          'src': src})
        if ';' not in src:
            for pre, post in TEXT_CONTEXTS[cls]:
                o2 = judge(res, cls, pre + src + post, 'corpus')
                note(o2, src)
                if o2 != o:
                    res.violate('accept-valid',
                                'corpus-in-text-context:%s' % o2,
                                {'source': pre + src + post, 'alone': o,
                                 'in-context': o2},
                                {'fam': 'one', 'cls': cls,
                                 'src': pre + src + post})
        if fam == 'mut':
            for how, m in mutations(src, tagre):
                note(judge(res, cls, m, 'mut:' + how), m)
        else:
            for i in range(len(src) + 1):
                note(judge(res, cls, src[:i], 'prefix'), src[:i])
    elif fam == 'pump':
        cls = case['cls']
        opener = PUMP_OPENERS[cls][case['opener']]
        toks = (HTML_TOK if cls == 'HTML' else EPFS_TOK) + \
            ['a', '="', '" ', '=', 'a=b ', '"a" ', '<', '&', '%', '(', '-']
        for t in toks:
            for k in (16, 24, 32, 64, 4096):
                src = opener + t * k
                note(judge(res, cls, src, 'pump'), src)
                note(judge(res, cls, src + ('>' if cls == 'HTML' else ')s'),
                           'pump'), src)
        for blk, end in (('<dtml-if x>', '</dtml-if>'),
                         ('<dtml-in x>', '</dtml-in>'),
                         ('<!--#with x-->', '<!--#/with-->'),
                         ('<dtml-let a=b>', '</dtml-let>'),
                         ('<dtml-try>', '<dtml-except></dtml-try>')):
            if cls != 'HTML':
                blk, end = '%(if x)[', '%(if x)]'
            for k in (16, 32, 64):
                note(judge(res, cls, blk * k, 'pump-nest'), blk * k)
                note(judge(res, cls, blk * k + end * k, 'pump-nest'), blk)
                note(judge(res, cls, blk * k + end * (k + 1), 'pump-nest'))
    elif fam == 'gram4':
        block = case['block']
        tags = GRAM4[block]
        for k in range(0, 4):
            for seq in itertools.product(tags, repeat=k):
                valid = gram4_valid(block, seq)
                for syntax, body in itertools.product(
                        ('dtml', 'ssi', 'epfs'), GRAM4_BODIES):
                    cls, src = gram4_source(block, seq, syntax, body)
                    o = judge(res, cls, src, 'gram4')
                    note(o, src)
                    if valid is None or valid == (o == 'accepted'):
                        continue
                    res.violate(
                        'reject-invalid' if not valid else 'accept-valid',
                        '%s:continuations-of-%s' % (
                            'accepted-invalid' if not valid
                            else 'rejected-valid', block.split()[0]),
                        {'source': src, 'continuations': list(seq),
                         'outcome': o},
                        {'fam': 'one', 'cls': cls, 'src': src})
    elif fam == 'gram3':
        attr = case['attr']
        tags = sorted(TAG_ATTRS)
        for syntax in ('dtml', 'ssi', 'epfs'):
            table = [(t,) + gram3_source(t, attr, syntax) for t in tags]
            for order in ('accepting-first', 'rejecting-first'):
                seq = sorted(table, key=lambda r: r[3] !=
                             (order == 'accepting-first'))
                for t, cls, src, valid in seq:
                    o = judge(res, cls, src, 'gram3')
                    note(o, src)
                    if valid != (o == 'accepted'):
                        res.violate(
                            'reject-invalid' if not valid
                            else 'accept-valid',
                            '%s:attribute-%s-on-%s' % (
                                'accepted-invalid' if not valid
                                else 'rejected-valid', attr, t),
                            {'source': src, 'outcome': o, 'order': order,
                             'compiled-before': [r[2] for r in
                                                 seq[:seq.index(
                                                     (t, cls, src, valid))]]},
                            {'fam': 'gram3', 'attr': attr})
    elif fam == 'gram2':
        block, args = GRAM2_BLOCKS[case['block']]
        for name in gram2_names():
            for cls, src in gram2_sources(block, args, name):
                o = judge(res, cls, src, 'gram2')
                note(o, src)
                key = (block, name)
                if key in GRAM2_OPEN or (name != name.lower() and
                                         (block, name.lower())
                                         in GRAM2_ACCEPT | GRAM2_OPEN):
                    continue        # case-insensitive tag names: not fixed
                valid = key in GRAM2_ACCEPT
                if valid != (o == 'accepted'):
                    res.violate(
                        'reject-invalid' if not valid else 'accept-valid',
                        '%s:%s-in-%s' % (
                            'accepted-invalid' if not valid
                            else 'rejected-valid',
                            'known' if name in KNOWN else 'unknown-tag',
                            block or 'top'),
                        {'source': src, 'outcome': o},
                        {'fam': 'one', 'cls': cls, 'src': src})
    elif fam == 'exprs':
        import TreeDisplay  # noqa: F401  registers the tree tag
        for text in EXPR_TEXTS:
            bad = python_rejects(text)
            for cls, tmpl, explicit in EXPR_TAGS:
                src = tmpl % text
                o = judge(res, cls, src, 'exprs')
                note(o, src)
                if bad and o not in ('rejected', 'syntaxerror'):
                    res.violate('reject-invalid',
                                'accepted-invalid:expression',
                                {'source': src, 'outcome': o},
                                {'fam': 'one', 'cls': cls, 'src': src})
                if not bad and o in ('rejected', 'syntaxerror') and \
                        'tree' not in src:
                    res.violate('accept-valid', 'rejected-valid:expression',
                                {'source': src, 'outcome': o},
                                {'fam': 'one', 'cls': cls, 'src': src})
    else:
        import TreeDisplay  # noqa: F401  registers the tree tag
        for what, cls, src0 in BAD:
            for pre, post in [('', '')] + TEXT_CONTEXTS[cls]:
                if (pre or post) and ';' in src0:
                    continue
                src = pre + src0 + post
                o = judge(res, cls, src, 'gram')
                note(o, src)
                if o not in ('rejected', 'syntaxerror'):
                    res.violate('reject-invalid',
                                'accepted-invalid:%s%s' % (
                                    what.replace(' ', '-'),
                                    ':in-text-context' if pre or post
                                    else ''),
                                {'source': src, 'violates': what,
                                 'outcome': o},
                                {'fam': 'one', 'cls': cls, 'src': src})
    res.evals = n
    res.nt_count = n - outcomes.get('accepted-plain', 0)
    for k, v in outcomes.items():
        res.count(fam + ':' + k, v)
    res.outcome = case['fam']
    return res


def finalize(tier, agg):
    c = agg['counters']
    for fam in ('tok', 'mut', 'prefix', 'pump', 'gram'):
        if not any(k.startswith(fam + ':') for k in c):
            raise HarnessFault('family %s did not run' % fam)
    rej = sum(v for k, v in c.items() if k.endswith(':rejected'))
    acc = sum(v for k, v in c.items() if k.endswith(':accepted'))
    if rej < 1000 or acc < 1000:
        raise HarnessFault('vacuous: accepted=%d rejected=%d' % (acc, rej))
    return {'accepted': acc, 'rejected': rej,
            'syntaxerror_with_expr': sum(v for k, v in c.items()
                                         if k.endswith(':syntaxerror'))}
