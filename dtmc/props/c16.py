"""C16 - summary statistics inside dtml-in equal independently computed values.

Space: all lists of length 1..N over a numeric domain (ints, floats, None,
attribute missing) and over a non-numeric domain (strings, None), as objects
and as mappings.  All ten statistics are printed on the last element and
compared with values computed with fractions.Fraction.
"""

import itertools
import math
from fractions import Fraction

from ..core import HarnessFault
from ..core import Res

ID = 'C16'
LEVEL = 'exploration'
MANIFEST = {
    'technique': 'exhaustive enumeration of all short lists over a small '
                 'value domain; every statistic compared with an exact '
                 'rational (Fraction) computation',
    'text': 'Every list of length 1..5 (quick) / 1..7 (thorough) over '
            '{-1,0,2,3,0.1,0.5,2.5,None,<missing>} and every list of length '
            '1..4/1..6 over {a,b,c,None}, as objects and as mappings, is '
            'rendered through dtml-in on the real code; count, total, min, '
            'max, mean, both variances, both standard deviations and the '
            'median printed on the last element are compared with values '
            'computed exactly from the non-None data (the text domain '
            'includes the empty string).  Family order: every ordered '
            'triple of requests (statistic, column) over two columns and '
            'six statistics is rendered; each printed value must be that '
            'of its own column whatever was requested before.  Family '
            'names: the same data under the variable names item, key, '
            'index, count, n, var, number, mean, x_y give the statistics '
            'they give under x.  Domain offset: values around 1e6 with a '
            'spread of 1.',
    'more': 'Also: summarised attributes / keys with non-ASCII names.',
    'note': 'Trusted: the Fraction-based reference in this driver; floats '
            'are compared to 1e-9 relative (absolute 1e-12; 1e-6 for a '
            'standard deviation whose true value is 0, because sqrt '
            'amplifies rounding); for magnitudes above 1000 the variance '
            'tolerance allows 128 ulp of the squared magnitude (rounding of '
            'a one-pass sum of squares).',
}
RULE = ('all lists of length 1..5 (quick) / 1..7 (thorough) over the numeric '
        'domain {-1, 0, 2, 3, 0.1, 0.5, 2.5, None, attribute-missing} and '
        'over the text domain {a, b, c, None}; each as objects and as '
        'mappings; the ten statistics printed on the last element.  A list '
        'is non-trivial when it has at least two non-None values that are '
        'not all equal.')
ASSUMPTIONS = ['mixed numeric/text lists are not generated (the documentation '
               'does not define them)',
               'for lists with no value at all only count == 0 and "no '
               'exception" are required']

NUM = [-1, 0, 2, 3, 0.1, 0.5, 2.5, None, 'MISSING']
TXT = ['a', 'b', 'c', None, '']
# small magnitudes: true variances far below 1e-9
TINY = [0.0001, 0.00015, 0.00003, 1e-05, 0, None]
# a large offset with a small spread: the spread must not be lost (the
# tolerance below allows for the rounding of a one-pass sum of squares)
OFFSET = [1000000, 1000001, 1000002, 1000000.5, 999999.25, None]
STATS = ('count', 'total', 'min', 'max', 'mean', 'variance', 'variance-n',
         'standard-deviation', 'standard-deviation-n', 'median')
CASE_CPU_SECONDS = 120.0
CASE_CPU_SECONDS_QUICK = 15.0

_t = {}


def template(mapping):
    from DocumentTemplate import HTML
    mapping = bool(mapping)
    t = _t.get(mapping)
    if t is None:
        body = '|'.join('<dtml-var %s-x>' % s for s in STATS)
        t = _t[mapping] = HTML(
            '<dtml-in seq%s><dtml-if sequence-end>%s</dtml-if></dtml-in>'
            % (' mapping' if mapping else '', body))
    return t


class O:
    pass


class Rec:
    """a record that is subscriptable and nothing else (no .get, no
    attributes): a mapping as far as `mapping` is concerned"""

    def __init__(self, d):
        self._d = d

    def __getitem__(self, key):
        return self._d[key]


def build(values, mapping):
    seq = []
    for v in values:
        if mapping == 2:
            seq.append(Rec({} if v == 'MISSING' else {'x': v}))
        elif mapping:
            seq.append({} if v == 'MISSING' else {'x': v})
        else:
            o = O()
            if v != 'MISSING':
                o.x = v
            seq.append(o)
    return seq


def cases(tier):
    yield {'dom': 'alias'}
    yield {'dom': 'names'}
    total = len(order_requests())
    for lo in range(0, total, 100):
        yield {'dom': 'order', 'lo': lo, 'hi': min(total, lo + 100)}
    maxn = 5 if tier == 'quick' else 7
    for dom, alpha in (('num', NUM), ('txt', TXT), ('tiny', TINY),
                       ('offset', OFFSET)):
        for n in range(1, (maxn if dom in ('num', 'txt') else maxn - 1) + 1):
            if n <= 2:
                yield {'dom': dom, 'n': n, 'pre': []}
            else:
                for pre in itertools.product(range(len(alpha)), repeat=2):
                    yield {'dom': dom, 'n': n, 'pre': list(pre)}


# family "order": statistics of two columns requested in every order (a
# statistic is computed when first asked for; what was asked before, and for
# which column, must not matter)
ORDER_STATS = ('count', 'total', 'min', 'max', 'median', 'mean')
ORDER_DATA = [([1, 2, 7], [10, 30, 20]), ([5, None, 3, 4], [1, 1, 1, 8]),
              ([4], [9, 2, 7])]


def order_requests():
    reqs = [(st, c) for st in ORDER_STATS for c in 'xy']
    return list(itertools.permutations(reqs, 3))


def order_expected(stat, data):
    data = [v for v in data if v is not None]
    srt = sorted(data)
    if stat == 'count':
        return len(data)
    if stat == 'total':
        return sum(data)
    if stat == 'min':
        return srt[0]
    if stat == 'max':
        return srt[-1]
    if stat == 'mean':
        return Fraction(sum(data), len(data))
    n = len(srt)
    return srt[n // 2] if n % 2 else (srt[n // 2 - 1], srt[n // 2])


def run_order(res, case):
    from DocumentTemplate import HTML
    reqs = order_requests()[case['lo']:case['hi']]
    n = 0
    for req in reqs:
        body = '|'.join('<dtml-var %s-%s>' % r for r in req)
        for mapping in (0, 1):
            t = HTML('<dtml-in seq%s><dtml-if sequence-end>%s</dtml-if>'
                     '</dtml-in>' % (' mapping' if mapping else '', body))
            for xs, ys in ORDER_DATA:
                m = max(len(xs), len(ys))
                seq = []
                for i in range(m):
                    d = {}
                    if i < len(xs):
                        d['x'] = xs[i]
                    if i < len(ys):
                        d['y'] = ys[i]
                    if mapping:
                        seq.append(d)
                    else:
                        o = O()
                        o.__dict__.update(d)
                        seq.append(o)
                n += 1
                try:
                    out = t(seq=seq).split('|')
                except Exception as e:
                    out = [repr(e)] * 3
                for (stat, col), got in zip(req, out):
                    exp = order_expected(stat, xs if col == 'x' else ys)
                    try:
                        g = parse_num(got)
                        ok = (exp[0] <= g <= exp[1]) if isinstance(exp, tuple) \
                            else close(g, exp)
                    except ValueError:
                        ok = False
                    if not ok:
                        res.violate(
                            'request-order', 'order:%s-after-%s' % (
                                stat, '+'.join(r[0] for r in
                                               req[:req.index((stat, col))])
                                or 'nothing'),
                            {'requests': ['%s-%s' % r for r in req],
                             'x': xs, 'y': ys, 'mapping': mapping,
                             'got': got, 'expected': str(exp)},
                            {'dom': 'order', 'lo': case['lo'] +
                             reqs.index(req), 'hi': case['lo'] +
                             reqs.index(req) + 1})
                        break
    res.evals = n
    res.nt_count = n
    res.outcome = 'order'
    res.sample = {'requests': ['%s-%s' % r for r in reqs[0]],
                  'x': ORDER_DATA[0][0], 'y': ORDER_DATA[0][1]}


def run_names(res, case):
    """the name of the summarised variable is just a name: data kept under
    item, key, index, count, n, var ... give the statistics the same data
    give under x (which the other families judge against exact values)"""
    from DocumentTemplate import HTML
    n = 0
    for name in ('item', 'key', 'index', 'count', 'n', 'var', 'number',
                 'mean', 'x_y', 'gr\xf6\xdfe', 'a\xf1o', '\u0446\u0435\u043d\u0430',
                 'col\u0663', 'X9', 'a.b'):
        body = '|'.join('<dtml-var %s-%s>' % (s, name) for s in STATS)
        for mapping in (0, 1):
            t = HTML('<dtml-in seq%s><dtml-if sequence-end>%s</dtml-if>'
                     '</dtml-in>' % (' mapping' if mapping else '', body))
            for values in ([3, 5], [1, 2, 3, 7], [2.5, 0.5, None], [4],
                           ['a', 'c', 'b'], ['MISSING', 2, 8]):
                seq = build(values, mapping)
                for e in seq:
                    d = e if mapping else e.__dict__
                    if 'x' in d:
                        d[name] = d.pop('x')
                n += 1
                try:
                    got = t(seq=seq)
                except Exception as e:
                    got = 'raised %r' % (e,)
                want = render(values, mapping)
                if got != want:
                    res.violate('variable-name', 'name:%s' % name,
                                {'values': values, 'mapping': mapping,
                                 'name': name, 'got': got,
                                 'same_data_as_x': want}, {'dom': 'names'})
    res.evals = res.nt_count = n
    res.outcome = 'names'


def run_alias(res, case):
    """with prefix=p the statistics are also reachable as p_<stat>_<name>
    (dashes written as underscores): same values as the dashed names"""
    from DocumentTemplate import HTML
    n = 0
    dashed = '|'.join('<dtml-var %s-x>' % s for s in STATS)
    alias = '|'.join('<dtml-var seq_%s_x>' % s.replace('-', '_')
                     for s in STATS)
    expr = '|'.join('<dtml-var "seq_%s_x">' % s.replace('-', '_')
                    for s in STATS)
    for mapping in (0, 1):
        t = HTML('<dtml-in seq prefix=seq%s><dtml-if sequence-end>%s#%s#%s'
                 '</dtml-if></dtml-in>' % (' mapping' if mapping else '',
                                           dashed, alias, expr))
        for values in ([1, 2, 3, 7], [2.5, 0.5], [4], [1, None, 3],
                       ['a', 'c', 'b'], [0.1, 0.1, 0.1]):
            n += 1
            try:
                a, b, c = t(seq=build(values, mapping)).split('#')
            except Exception as e:
                a, b, c = 'raised %r' % (e,), '', ''
            if not (a == b == c):
                sa, sb = a.split('|'), b.split('|')
                which = [s for s, x, y in zip(STATS, sa, sb) if x != y] \
                    if len(sa) == len(sb) == len(STATS) else ['?']
                res.violate('prefix-alias', 'alias:%s' % (which or ['expr'])[0],
                            {'values': values, 'mapping': mapping,
                             'dashed': a, 'alias': b, 'alias-in-expr': c},
                            {'dom': 'alias'})
    res.evals = n
    res.nt_count = n
    res.outcome = 'alias'
    res.sample = {'alias': 'seq_variance_n_x == variance-n-x'}


def lists(case):
    alpha = {'num': NUM, 'txt': TXT, 'tiny': TINY,
             'offset': OFFSET}[case['dom']]
    pre = [alpha[i] for i in case['pre']]
    for rest in itertools.product(alpha, repeat=case['n'] - len(pre)):
        yield pre + list(rest)


def close(got, true, abs_tol=1e-12):
    true = float(true)
    return abs(got - true) <= 1e-9 * abs(true) + abs_tol


def parse_num(s):
    try:
        return int(s)
    except ValueError:
        return float(s)


def judge(res, values, mapping, out):
    """Compare the printed statistics with the exact ones."""
    case = {'kind': 'one', 'values': values, 'mapping': mapping}

    def bad(stat, got, exp):
        kinds = sorted({type(v).__name__ for v in data})
        res.violate(stat, '%s:%s:n=%s' % (stat, '+'.join(kinds) or 'none',
                                          'even' if len(data) % 2 == 0
                                          else 'odd'),
                    {'values': values, 'mapping': mapping, 'stat': stat,
                     'got': got, 'expected': exp, 'output': out}, case)

    data = [v for v in values if v is not None and v != 'MISSING']
    if isinstance(out, BaseException):
        kinds = sorted({type(v).__name__ for v in data})
        res.violate('no-exception', 'exc:%s:%s' % (type(out).__name__,
                                                   '+'.join(kinds) or 'none'),
                    {'values': values, 'mapping': mapping,
                     'exception': repr(out)}, case)
        return
    got = dict(zip(STATS, out.split('|')))
    if len(out.split('|')) != len(STATS):
        res.violate('format', 'format', out, case)
        return
    n = len(data)
    if got['count'] != str(n):
        bad('count', got['count'], n)
    if n == 0:
        return
    numeric = not isinstance(data[0], str)
    srt = sorted(data)
    if numeric:
        fr = [Fraction(v) for v in data]
        total = sum(fr)
        mean = total / n
        varn = sum((f - mean) ** 2 for f in fr) / n
        exact = {'total': total, 'mean': mean, 'variance-n': varn,
                 'standard-deviation-n': math.sqrt(varn)}
        if n > 1:
            var = varn * n / (n - 1)
            exact['variance'] = var
            exact['standard-deviation'] = math.sqrt(var)
        for stat in ('total', 'mean', 'variance-n', 'standard-deviation-n',
                     'variance', 'standard-deviation'):
            if stat not in exact:
                if got[stat] != '':
                    bad(stat, got[stat], '(blank for count < 2)')
                continue
            try:
                g = parse_num(got[stat])
            except ValueError:
                bad(stat, got[stat], float(exact[stat]))
                continue
            tol = 1e-12
            if stat.startswith('standard') and varn == 0:
                tol = 1e-6
            # a sum of squares of numbers of magnitude M carries a rounding
            # error of a few ulp(M * M), whatever the spread is
            big = max(abs(v) for v in data)
            vtol = 64 * 2.3e-16 * big * big if big > 1000 else 0.0
            if vtol and stat.startswith('variance'):
                tol += vtol * 2
            if vtol and stat.startswith('standard'):
                ok = close(g * g, float(exact[stat]) ** 2, tol + vtol * 2)
            else:
                ok = close(g, exact[stat], tol)
            if not ok:
                bad(stat, g, float(exact[stat]))
        for stat, exp in (('min', srt[0]), ('max', srt[-1])):
            try:
                if parse_num(got[stat]) != exp:
                    bad(stat, got[stat], exp)
            except ValueError:
                bad(stat, got[stat], exp)
        try:
            m = parse_num(got['median'])
        except ValueError:
            bad('median', got['median'], 'a number')
        else:
            if n % 2:
                if m != srt[n // 2]:
                    bad('median', m, srt[n // 2])
            else:
                lo, hi = srt[n // 2 - 1], srt[n // 2]
                if not (lo <= m <= hi):
                    bad('median', m, [lo, hi])
    else:
        for stat in ('total', 'mean', 'variance', 'variance-n',
                     'standard-deviation', 'standard-deviation-n'):
            if got[stat] != '':
                bad(stat, got[stat], '(blank for non-numeric data)')
        if got['min'] != srt[0]:
            bad('min', got['min'], srt[0])
        if got['max'] != srt[-1]:
            bad('max', got['max'], srt[-1])
        if n % 2:
            if got['median'] != srt[n // 2]:
                bad('median', got['median'], srt[n // 2])
        else:
            lo, hi = srt[n // 2 - 1], srt[n // 2]
            m = got['median']
            if lo == hi:
                ok = lo in m
            else:
                ok = lo in m and hi in m
            if not ok:
                bad('median', m, 'a text naming %s and %s' % (lo, hi))


def render(values, mapping):
    try:
        return template(mapping)(seq=build(values, mapping))
    except Exception as e:
        return e


def run(case):
    res = Res()
    if case.get('dom') == 'alias':
        run_alias(res, case)
        return res
    if case.get('dom') == 'order':
        run_order(res, case)
        return res
    if case.get('dom') == 'names':
        run_names(res, case)
        return res
    if case.get('kind') == 'one':
        judge(res, case['values'], case['mapping'],
              render(case['values'], case['mapping']))
        res.nontrivial = True
        return res
    nt = n = 0
    for values in lists(case):
        data = [v for v in values if v is not None and v != 'MISSING']
        for mapping in ((0, 1, 2) if case['n'] <= 3 else (0, 1)):
            out = render(values, mapping)
            n += 1
            judge(res, values, mapping, out)
            if len(data) >= 2 and len(set(data)) > 1:
                nt += 1
                if res.sample is None:
                    res.sample = {'values': values, 'mapping': mapping,
                                  'stats': dict(zip(STATS, out.split('|')))
                                  if isinstance(out, str) else repr(out)}
    res.evals = n
    res.nt_count = nt
    res.outcome = '%s:n=%d' % (case['dom'], case['n'])
    return res


def finalize(tier, agg):
    if agg['nontrivial'] < 500:
        raise HarnessFault('vacuous: too few non-trivial lists')
    # oracle self-test: a population variance reported as sample variance
    r = Res()
    judge(r, [0, 2], 0, '2|2|0|2|1.0|1.0|1.0|1.0|1.0|1')
    if not any(v['clause'] == 'variance' for v in r.violations):
        raise HarnessFault('self-test: n vs n-1 not detected')
    return {}
