"""C14 - try / except / else / finally, raise and return follow Python-like
control flow.

Programs are generated over an exception hierarchy HA > HB > HC plus an
unrelated HX; every block carries a logging probe so that the call trace
shows which blocks ran, how often and in which order.  Output, exception
class + message, return value and the ordered call log are compared with the
reference interpreter (dtmc/refsem.py: Python's own try semantics driven by
class-name matching).
"""

import itertools

from .. import harness
from ..ast import E
from ..ast import N
from ..ast import T
from ..core import HarnessFault
from ..core import Res

ID = 'C14'
LEVEL = 'model_checking'
MANIFEST = {
    'technique': 'exhaustive enumeration of try/except/else/finally/raise/'
                 'return programs over a 3-level exception hierarchy; output, '
                 'propagated exception, return value and ordered call trace '
                 'compared with a reference interpreter for every program',
    'text': 'All handler lists of <= 3 handlers (each naming a subset of '
            '{HA,HB,HC,HX} or bare) x raised class at the body x raising '
            'handler x else present/raising; the finally form with raise or '
            'return in body and/or finally; a second (quick) and third '
            '(thorough) try nested in body, handler, else or finally; '
            'return (4 value types) and raise placed inside every block kind '
            '(in, with, let, if, unless, try body, handler, else, finally, '
            'raise body), optionally under an outer bare except and an outer '
            'finally.  Each program is rendered on the real code in one of '
            'three syntaxes and its trace compared with the reference model. '
            ' Also an exception class with two bases (HA reachable through '
            'the second base only) against all handler lists, and two '
            'different classes of the same name raised in successive '
            'renders of one compiled template; unrelated classes whose '
            'names contain a handler name; an exception outside the '
            'Exception hierarchy through (nested) finally blocks.',
    'more': 'Also: 50..450 handled exceptions / returns in one rendering raised inside documents called by name; handler tags naming several classes separated by any white space.',
    'note': 'Trusted: dtmc/refsem.py (imports nothing from DocumentTemplate; '
            'uses Python try/except/finally itself).  Exceptions are harness '
            'classes raised by namespace callables or by dtml-raise with an '
            'expression naming the class.',
}
RULE = ('families flat / finally / nested / placed as in the module '
        'docstring.  A program is non-trivial when an exception is raised or '
        'a return executed in it.')
ASSUMPTIONS = ['error_tb is not compared',
               'dtml-raise type="name" with a name that is neither a builtin '
               'nor a zExceptions class is left to the implementation']

CLS = ['HA', 'HB', 'HC', 'HX']
SYNTAXES = ('dtml', 'ssi', 'epfs')


def handler_options(tier):
    if tier == 'quick':
        return [['HA'], ['HB'], ['HC'], ['HX'], ['HC', 'HX'], []]
    out = []
    for k in range(1, 5):
        for sub in itertools.combinations(CLS, k):
            out.append(list(sub))
    out.append([])
    return out


def P(i):
    return ['var', N('p%d' % i), []]


def R(cls):
    """a tag that raises class cls through a namespace callable"""
    return ['var', N('raise%s' % cls.replace('~', 'F')), []]


INFO = [T('{'), ['var', N('error_type'), []], T(':'),
        ['var', N('error_value'), []], T('}')]
AFTER = [T('/'), ['var', N('error_type'), [['missing', '-']]]]


def flat_try(body_raise, handlers, hraise, els, base=0):
    """handlers: list of name lists; hraise: class raised inside every
    handler body (or None); els: None | 'plain' | class name"""
    body = [T('b'), P(base)]
    if body_raise:
        body.append(R(body_raise))
    body += [P(base + 1), T('B')]
    hs = []
    for i, names in enumerate(handlers):
        hb = [T('h%d' % i), P(base + 2 + i)] + INFO
        if hraise:
            hb.append(R(hraise))
        hb.append(T('H'))
        hs.append([names, hb])
    eb = None
    if els:
        eb = [T('e'), P(base + 6)]
        if els != 'plain':
            eb.append(R(els))
        eb.append(T('E'))
    return ['try', body, hs, eb]


def fin_try(body_act, fin_act, base=0):
    def act(a):
        if a is None:
            return []
        if a == 'return':
            return [['return', N('rv')]]
        return [R(a)]
    return ['tryf', [T('b'), P(base)] + act(body_act) + [T('B')],
            [T('f'), P(base + 1)] + act(fin_act) + [T('F')]]


def mini(tier):
    """small family of try blocks used for nesting (descriptions)"""
    out = []
    for h in (['HA'], ['HB'], ['HX'], []):
        for br in (None, 'HA', 'HC', 'HX'):
            for hr in (None, 'HX'):
                out.append(['flat', br, [h], hr, None])
    out.append(['flat', None, [['HA']], None, 'plain'])
    out.append(['flat', None, [['HA']], None, 'HB'])
    for ba in (None, 'HB', 'return'):
        for fa in (None, 'HX', 'return'):
            out.append(['fin', ba, fa])
    # (index -1, used as an outer block only) a try..finally whose body is
    # left by an exception outside the Exception hierarchy
    out.append(['fin', 'HQ', None])
    return out


def build_mini(d, base):
    if d[0] == 'flat':
        return flat_try(d[1], d[2], d[3], d[4], base)
    return fin_try(d[1], d[2], base)


def nest(outer, inner_node, where, base):
    """outer description + placement of the inner node"""
    node = build_mini(outer, base)
    if node[0] == 'try':
        if where == 'body':
            node[1].insert(2, inner_node)
        elif where == 'handler':
            for h in node[2]:
                h[1].insert(2, inner_node)
        elif where == 'else':
            if node[3] is None:
                return None
            node[3].insert(2, inner_node)
        else:
            return None
    else:
        if where == 'body':
            node[1].insert(2, inner_node)
        elif where == 'finally':
            node[2].insert(2, inner_node)
        else:
            return None
    return node


BLOCKS = ('in', 'with', 'let', 'if', 'unless', 'trybody', 'handler', 'else',
          'finally', 'tryfbody', 'raisebody')


def placed(block, act):
    inner = [T('x'), P(0)] + act + [P(1), T('X')]
    if block == 'in':
        return ['in', N('s2'), inner, None, []]
    if block == 'with':
        return ['with', N('obj'), inner, []]
    if block == 'let':
        return ['let', [['z', E('1')]], inner]
    if block == 'if':
        return ['if', [[E('1'), inner]], None]
    if block == 'unless':
        return ['unless', E('0'), inner]
    if block == 'trybody':
        return ['try', inner, [[['HA'], [T('h'), P(2)]]], None]
    if block == 'handler':
        return ['try', [R('HB')], [[['HA'], inner]], None]
    if block == 'else':
        return ['try', [T('b')], [[['HA'], [T('h')]]], inner]
    if block == 'finally':
        return ['tryf', [T('b'), P(2)], inner]
    if block == 'tryfbody':
        return ['tryf', inner, [T('f'), P(2)]]
    if block == 'raisebody':
        return ['raise', E('HXc'), inner]
    raise ValueError(block)


RVALS = [['lit', 'RV'], ['lit', 7], ['lit', [1, 'a']], ['lit', None]]


def cases(tier):
    hopts = handler_options(tier)
    idx = 0
    # flat
    for k in range(0, 4):
        for hs in itertools.product(range(len(hopts)), repeat=k):
            names = [hopts[i] for i in hs]
            if sum(1 for n in names if not n) > 1:
                continue                   # two bare handlers: parse error
            if k == 0:
                continue                   # try without continuation
            for br in [None] + CLS:
                for hr in (None, 'HX', 'HB'):
                    for els in (None, 'plain', 'HX'):
                        idx += 1
                        yield {'fam': 'flat', 'handlers': names, 'br': br,
                               'hr': hr, 'else': els,
                               'syntax': SYNTAXES[idx % 3]}
    # handler tags naming several classes, separated by any white space
    for names in ([['HC', 'HX']], [['HX', 'HB']], [['HA', 'HX'], []],
                  [['HX', 'HC', 'HB']], [['HX'], ['HB', 'HC']]):
        for ws in (1, 2, 4, 5, 6, 7, 8, 9):
            for br in CLS:
                idx += 1
                yield {'fam': 'flat', 'handlers': names, 'br': br,
                       'hr': None, 'else': None, 'ws': ws,
                       'syntax': SYNTAXES[idx % 3]}
    # exceptions with two bases, and two different classes of one name
    # raised in successive renders of the same compiled template
    mi_h = [['HA'], ['HB'], ['HX'], ['HC'], ['HM'], ['HA', 'HC'], []]
    for k in (1, 2):
        for hs in itertools.product(range(len(mi_h)), repeat=k):
            names = [mi_h[i] for i in hs]
            if sum(1 for n in names if not n) > 1:
                continue
            idx += 1
            yield {'fam': 'flat', 'handlers': names, 'br': 'HM', 'hr': None,
                   'else': None, 'syntax': SYNTAXES[idx % 3]}
            for order in (['HB', 'HB~'], ['HB~', 'HB'], ['HB', 'HB~', 'HB']):
                idx += 1
                yield {'fam': 'samename', 'handlers': names, 'order': order,
                       'syntax': SYNTAXES[idx % 3]}
            # dtml-raise with a computed class: the same compiled tag raises
            # whatever the expression yields in *this* render
            for order in (['HA', 'HX'], ['HX', 'HB', 'HA'], ['HC', 'HX', 'HC']):
                idx += 1
                yield {'fam': 'samename', 'handlers': names, 'order': order,
                       'via': 'raise-expr', 'syntax': SYNTAXES[idx % 3]}
    # classes whose names merely contain a handler's name
    for k in (1, 2):
        for hs in itertools.product(range(len(mi_h)), repeat=k):
            names = [mi_h[i] for i in hs]
            if sum(1 for n in names if not n) > 1:
                continue
            for br in ('ZHB', 'HBZ', 'HM2'):
                idx += 1
                yield {'fam': 'flat', 'handlers': names, 'br': br,
                       'hr': None, 'else': None,
                       'syntax': SYNTAXES[idx % 3]}
    # an exception outside the Exception hierarchy: no handler takes it,
    # every finally body on its way still runs once
    for fa in (None, 'HX', 'return'):
        for sx in SYNTAXES:
            yield {'fam': 'fin', 'ba': 'HQ', 'fa': fa, 'syntax': sx}
    for ii, inner in enumerate(mini(tier)):
        for where in ('body', 'finally'):
            idx += 1
            yield {'fam': 'nest2', 'outer': -1, 'inner': ii, 'where': where,
                   'syntax': SYNTAXES[idx % 3]}
    # empty bodies: a matching handler without content still handles, an
    # empty else / finally / try body changes nothing else
    eh = [['HA'], ['HB'], ['HX'], []]
    for k in (1, 2):
        for hs in itertools.product(range(len(eh)), repeat=k):
            names = [eh[i] for i in hs]
            if sum(1 for n in names if not n) > 1:
                continue
            for br in [None] + CLS:
                for els in (None, 'plain'):
                    parts = ['body'] + ['h%d' % i for i in range(k)] + \
                        (['else'] if els else [])
                    for m in range(1, len(parts) + 1):
                        for empt in itertools.combinations(parts, m):
                            idx += 1
                            yield {'fam': 'flat', 'handlers': names,
                                   'br': None if 'body' in empt else br,
                                   'hr': None, 'else': els,
                                   'empty': list(empt),
                                   'syntax': SYNTAXES[idx % 3]}
    for ba in (None, 'HB', 'return'):
        for empt in (['body'], ['fin'], ['body', 'fin']):
            for sx in SYNTAXES:
                yield {'fam': 'fin', 'ba': None if 'body' in empt else ba,
                       'fa': None, 'empty': empt, 'syntax': sx}
    # handlers that name builtin / zExceptions classes, and raised classes
    # that are, or only share the name of, such classes
    bh = [['KeyError'], ['LookupError'], ['NotFound'], ['HX'], ['HA'],
          ['Exception'], ['ValueError', 'KeyError'], []]
    for k in (1, 2):
        for hs in itertools.product(range(len(bh)), repeat=k):
            names = [bh[i] for i in hs]
            if sum(1 for n in names if not n) > 1:
                continue
            for br in ('KeyError~', 'NotFound~', 'KeyError', 'IndexError',
                       'ValueError'):
                idx += 1
                yield {'fam': 'flat', 'handlers': names, 'br': br,
                       'hr': None, 'else': None,
                       'syntax': SYNTAXES[idx % 3]}
    for rows in (50, 201, 250, 450):
        for act in ('raise', 'return', 'raise-tag'):
            for wrap in ('except', 'finally'):
                idx += 1
                yield {'fam': 'many', 'rows': rows, 'act': act, 'wrap': wrap,
                       'syntax': SYNTAXES[idx % 3]}
    # finally
    for ba in [None, 'return'] + CLS:
        for fa in [None, 'return'] + CLS:
            for sx in SYNTAXES:
                yield {'fam': 'fin', 'ba': ba, 'fa': fa, 'syntax': sx}
    # nested
    ms = mini(tier)
    for oi, outer in enumerate(ms):
        for ii, inner in enumerate(ms):
            for where in ('body', 'handler', 'else', 'finally'):
                idx += 1
                yield {'fam': 'nest2', 'outer': oi, 'inner': ii,
                       'where': where, 'syntax': SYNTAXES[idx % 3]}
    if tier == 'thorough':
        small = [i for i, m in enumerate(ms)
                 if m[0] == 'fin' or (m[3] is None and m[1] != 'HC')]
        for oi in small:
            for mi in small:
                for ii in small:
                    for w1 in ('body', 'handler', 'finally'):
                        for w2 in ('body', 'handler', 'finally'):
                            idx += 1
                            yield {'fam': 'nest3', 'outer': oi, 'mid': mi,
                                   'inner': ii, 'w1': w1, 'w2': w2,
                                   'syntax': SYNTAXES[idx % 3]}
    # placed return / raise
    for block in BLOCKS:
        for wrap in ('none', 'bare-except', 'finally', 'both'):
            for ri in range(len(RVALS)):
                for sx in SYNTAXES:
                    yield {'fam': 'placed', 'block': block, 'act': 'return',
                           'rv': ri, 'wrap': wrap, 'syntax': sx}
            for how in ('call:HB', 'tag:HBc', 'type:ValueError'):
                for sx in SYNTAXES:
                    yield {'fam': 'placed', 'block': block, 'act': how,
                           'rv': 0, 'wrap': wrap, 'syntax': sx}


def namespace(rv=0):
    ns = {'s2': ['seq', 'list', [['lit', 10], ['lit', 20]]],
          'obj': ['obj', {'oa': ['lit', 'OA']}],
          'rv': RVALS[rv]}
    for i in range(12):
        ns['p%d' % i] = ['probe', i, ['lit', '']]
    for c in CLS + ['HM', 'HM2']:
        ns['raise' + c] = ['raiser', 'r' + c, c, 'msg-' + c]
        ns[c + 'c'] = ['exc', c]
    for c in ('KeyError~', 'NotFound~', 'KeyError', 'IndexError',
              'ValueError', 'ZHB', 'HBZ', 'HQ'):
        ns['raise' + c.replace('~', 'F')] = ['raiser', 'r' + c, c,
                                             'msg-' + c]
    return ns


def run_samename(res, case):
    """one compiled template, rendered with callables raising different
    classes that share a name: every render is judged on its own"""
    from .. import ast
    from .. import refsem
    from ..probes import World
    node = flat_try('HV', case['handlers'], None, None)
    via = case.get('via')
    if via == 'raise-expr':
        node[1] = [T('b'), ['raise', E('HVc'), [T('m'), P(3)]], T('B')]
    nodes = [T('<'), node, T('>')] + AFTER
    src = ast.to_source(nodes, case['syntax'])
    t = ast.template_class(case['syntax'])(src)
    res.nontrivial = True
    res.traces = len(case['order'])
    res.states = res.transitions = len(case['order'])
    for step, cls in enumerate(case['order']):
        ns = namespace()
        ns['raiseHV'] = ['raiser', 'rHV', cls, 'msg']
        ns['HVc'] = ['exc', cls]
        obs = []
        for mode in ('impl', 'ref'):
            w = World(mode, case['syntax'])
            built = w.build_ns(ns)
            try:
                if mode == 'impl':
                    r = t(**built)
                else:
                    r = refsem.Interp().call_top(nodes, kw=built)
                o = ['ok', r]
            except Exception as e:
                o = ['exc', type(e).__name__, refsem.exception_text(e)]
            obs.append((o, w.log))
        if obs[0] != obs[1]:
            res.violate('same-name-classes', '%s:%s' % (
                via or 'samename',
                'first' if step == 0 else 'later-render'),
                {'source': src, 'step': step, 'raised': cls,
                 'impl': obs[0], 'ref': obs[1]})
            break
    res.outcome = 'samename'


def build(case):
    fam = case['fam']
    ms = None
    if fam == 'flat':
        node = flat_try(case['br'], case['handlers'], case['hr'],
                        case['else'])
        for e in case.get('empty', []):
            if e == 'body':
                node[1] = []
            elif e == 'else':
                node[3] = []
            else:
                node[2][int(e[1:])][1] = []
    elif fam == 'many':
        # scale: hundreds of handled exceptions / returns in one rendering,
        # raised inside documents called by name; the 250th is handled like
        # the first
        ns = namespace()
        ns['rows'] = ['seq', 'list', [['lit', i] for i in
                                      range(case['rows'])]]
        act = {'raise': [['var', N('raiseHB'), []]],
               'return': [['return', N('rv')]],
               'raise-tag': [['raise', E('HBc'), [T('m')]]]}[case['act']]
        ns['sub'] = ['tmpl', [T('s'), ['if', [[
            E("_['sequence-item'] % 2 == 0"), act]], None], T('S')], {}]
        if case['wrap'] == 'except':
            inner = ['try', [T('t'), ['var', N('sub'), []], T('T')],
                     [[['HA'], [T('h'), ['var', N('error_type'), []]]]],
                     [T('e')]]
        else:
            inner = ['try', [['tryf', [T('t'), ['var', N('sub'), []]],
                              [T('f')]]], [[[], [T('g')]]], None]
        return [T('<'), ['in', N('rows'), [inner], None, []], T('>')] + \
            AFTER, ns
    elif fam == 'fin':
        node = fin_try(case['ba'], case['fa'])
        for e in case.get('empty', []):
            node[1 if e == 'body' else 2] = []
    elif fam == 'nest2':
        ms = mini(None)
        inner = build_mini(ms[case['inner']], 8)
        node = nest(ms[case['outer']], inner, case['where'], 0)
    elif fam == 'nest3':
        ms = mini(None)
        inner = build_mini(ms[case['inner']], 8)
        mid = nest(ms[case['mid']], inner, case['w2'], 4)
        if mid is None:
            return None
        # probes of mid use ids 4.. ; rename collisions are harmless (ids
        # only label log entries)
        node = nest(ms[case['outer']], mid, case['w1'], 0)
    else:
        if case['act'] == 'return':
            act = [['return', N('rv')]]
        else:
            how, what = case['act'].split(':')
            if how == 'call':
                act = [R(what)]
            elif how == 'tag':
                act = [['raise', E(what), [T('m'), P(3), T('M')]]]
            else:
                act = [['raise', ['t', what], [T('m'), P(3), T('M')]]]
        node = placed(case['block'], act)
        wrap = case['wrap']
        if wrap in ('bare-except', 'both'):
            node = ['try', [T('w'), node, T('W')],
                    [[[], [T('caught')] + INFO]], None]
        if wrap in ('finally', 'both'):
            node = ['tryf', [T('v'), node, T('V')], [T('fin'), P(9)]]
    if node is None:
        return None
    nodes = [T('<'), node, T('>')] + AFTER
    return nodes, namespace(case.get('rv', 0))


def run(case):
    from .. import ast as _ast
    _ast.DEFAULT_STYLE['ws'] = case.get('ws', 0)
    try:
        return run_(case)
    finally:
        _ast.DEFAULT_STYLE['ws'] = 0


def run_(case):
    res = Res()
    if case['fam'] == 'samename':
        run_samename(res, case)
        return res
    built = build(case)
    if built is None:
        res.outcome = 'not-expressible'
        return res
    nodes, ns = built
    impl = harness.observe_impl(nodes, ns, case['syntax'])
    ref = harness.observe_ref(nodes, ns)
    if ref['unspec']:
        res.outcome = 'unspec'
        return res
    res.states = 1 + len(ref['log'])
    res.transitions = len(ref['log']) + 1
    res.traces = 1
    raised = any(e[0] == 'call' and str(e[1]).startswith('r')
                 for e in ref['log'])
    res.nontrivial = raised or ref['kind'] == 'exc' or \
        not ref['value'].startswith('<')
    res.outcome = '%s:%s' % (case['fam'], ref['kind'])
    why = harness.same(impl, ref)
    if why:
        sig = '%s:%s' % (case['fam'], why)
        if case['fam'] == 'placed':
            sig += ':%s-in-%s' % (case['act'].split(':')[0], case['block'])
        elif why == 'calls':
            sig += ':%s' % ('more' if len(impl['log']) > len(ref['log'])
                            else 'fewer' if len(impl['log']) < len(ref['log'])
                            else 'order')
        res.violate(why, sig, {'impl': impl, 'ref': ref})
    return res


def finalize(tier, agg):
    if len(agg['outcomes']) < 6:
        raise HarnessFault('vacuous: fewer than 6 distinct outcomes')
    if agg['outcomes'].get('unspec', 0) > agg['cases'] // 10:
        raise HarnessFault('too many unspecified observations')
    # oracle self-test: else after a handled exception must be flagged
    nodes, ns = build({'fam': 'flat', 'handlers': [['HA']], 'br': 'HB',
                       'hr': None, 'else': 'plain', 'syntax': 'dtml'})
    ref = harness.observe_ref(nodes, ns)
    impl = harness.observe_impl(nodes, ns)
    if harness.same(impl, ref):
        raise HarnessFault('self-test baseline disagrees: %r %r'
                           % (impl, ref))
    bad = dict(impl, value=impl['value'].replace('H', 'HeE'))
    if harness.same(bad, ref) != 'value':
        raise HarnessFault('self-test: perturbed output not detected')
    return {}
