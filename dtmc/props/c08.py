"""C08 - namespace stack and recursion level are restored on every exit path.

Programs: all ordered forests of up to N block nodes (nested or sequential)
over {in, batched in, with, with only, let, if, try/except/else, try with
children in the handler, try/finally (children in body / in finally), raise,
sub-template, tree (plain, expand_all + branches_expr)}; every slot that
evaluates a namespace value is a logging callable -- an *invocation point*.

Faults (deviation-bounded): the fault-free run, then for every invocation
ordinal k a fault {exception, dtml-return} armed at k; then, in the trace of
that run, every later ordinal j (these are the handler / finally points).

The template is called as a sub-template on a pre-populated TemplateDict
(three frames, level 3).  Invariants:
  A  after the call (normal, DTReturn or exception) the frames are the same
     objects in the same order and level == 3
  B  for every block, the probe following it sees the same frames as the
     probe preceding it (whenever both ran)
  C  at every probe the three sentinel names (bound in the three initial
     frames) resolve to their initial objects
"""

import itertools
import json

from .. import ast
from ..ast import E
from ..ast import N
from ..ast import T
from ..core import CaseTimeout
from ..core import HarnessFault
from ..core import Res
from ..probes import World

ID = 'C08'
LEVEL = 'fault_enumeration'
MANIFEST = {
    'technique': 'exhaustive fault enumeration: every program of the '
                 'bounded family x an exception or dtml-return injected at '
                 'every namespace-value invocation point, singly and in '
                 'pairs; stack/level invariants checked at every probe and '
                 'after the call',
    'text': 'All ordered forests of <= 3 (quick) / <= 4 (thorough) block '
            'nodes over 31 block kinds (in, batched in, in mapping, in over mixed pushed / unpushed items, in / batched in under an item guard that refuses items (skipped or raising), in / batched in over an empty sequence with the blocks in the else branch, if with three named conditions, with, with only, '
            'let, if, try body, try handler, try/finally body, finally, '
            'raise, sub-template by name / from an expression with a client '
            'tuple / with one client and keywords, tree, tree with '
            'expand_all + branches_expr, tree with leaves / header / footer '
            'documents on a fully expanded stored state, tree with an '
            'expand document, tree naming missing documents) are run on the real code as a sub-template call '
            'on a pre-populated TemplateDict, fault-free and with a fault '
            '{HB exception, DTReturn} at every invocation ordinal, and with '
            'a second fault at every later ordinal of that trace (<= 2 '
            'faults).  After every run the frames must be the same objects '
            'in the same order and the level restored; every post-block '
            'probe must see the frames of its pre-block probe; sentinel '
            'names must resolve unchanged at every probe.',
    'more': 'Also: blocks with completely empty sections (16 kinds); client paths with None steps; the stand-alone next / previous forms; a handled exception whose traceback text no codec can encode.',
    'note': 'Trusted: the snapshot taken by the probes (identity list of '
            'TemplateDict._data, read-only, and .level).  Only namespace-'
            'value invocation points are fault points, as the property '
            'states.',
}
DYNAMIC = True        # few heavy cases: dynamic load balancing
RULE = ('programs: forests of <= 3 / <= 4 block nodes over 31 kinds; faults: '
        'none, one (each ordinal x {raise HB, return}), two (second at every '
        'later ordinal; quick: for programs of <= 2 blocks).  A run is '
        'non-trivial when a fault fired (control flow was changed).')
ASSUMPTIONS = ['tree rendering needs URL and RESPONSE in the namespace; the '
               'harness supplies both']
CASE_CPU_SECONDS = 300.0
CASE_CPU_SECONDS_QUICK = 120.0

KINDS = ('in', 'inb', 'inmap', 'inbmap', 'inmix', 'inbmix', 'insortx',
         'inbvars', 'ingd', 'ingdx', 'inbgd', 'inempty', 'inbempty', 'if2', 'with', 'withonly', 'let', 'if', 'try', 'tryh',
         'tryf', 'fin', 'raise', 'sub', 'subtuple', 'subclient', 'tree', 'treex', 'treedm', 'treedp',
         'treeed', 'subnone', 'innext', 'inprev', 'tryhu', 'e-tryh', 'e-tryh0', 'e-try', 'e-tryelse', 'e-tryf',
         'e-fin', 'e-in', 'e-inb', 'e-inmap', 'e-inelse', 'e-with', 'e-let',
         'e-if', 'e-ifelse', 'e-raise', 'e-sub')
LEAF_ONLY = ('withonly', 'tree', 'treex', 'treedm', 'treedp', 'treeed',
             'e-tryh', 'e-tryh0', 'e-try', 'e-tryelse', 'e-tryf', 'e-fin',
             'e-in', 'e-inb', 'e-inmap', 'e-inelse', 'e-with', 'e-let',
             'e-if', 'e-ifelse', 'e-raise',
             'e-sub')     # no nested blocks inside
SYNTAXES = ('dtml', 'ssi', 'epfs')


# ---------------------------------------------------------------- programs

def forests(n, kinds):
    """all ordered forests with exactly n nodes; a node = [kind, children]"""
    if n == 0:
        yield []
        return
    for k in range(1, n + 1):          # size of the first tree
        for first in trees(k, kinds):
            for rest in forests(n - k, kinds):
                yield [first] + rest


def trees(n, kinds):
    for kind in kinds:
        if kind in LEAF_ONLY:
            if n == 1:
                yield [kind, []]
            continue
        for kids in forests(n - 1, kinds):
            yield [kind, kids]


class Builder:
    def __init__(self):
        self.k = 0
        self.ns = {}
        self.pairs = []
        self.kinds = {}

    def probe(self, label):
        name = 'p_%s' % label
        self.ns[name] = ['probe', label, ['lit', '']]
        return ['var', N(name), []]

    def block(self, node):
        kind, kids = node
        self.k += 1
        k = self.k
        self.kinds[str(k)] = kind
        pre, post = self.probe('pre%d' % k), self.probe('post%d' % k)
        self.pairs.append(('pre%d' % k, 'post%d' % k))
        inner = [self.probe('in%d' % k)] + self.body(kids) + \
            [self.probe('out%d' % k)]
        ns = self.ns
        if kind in ('in', 'inb'):
            ns['seq%d' % k] = ['probe', 'seq%d' % k, [
                'seq', 'list', [['obj', {'e': ['lit', 1]}],
                                ['obj', {'e': ['lit', 2]}]]]]
            opts = [['size', '1'], ['orphan', '0']] if kind == 'inb' else []
            n = ['in', N('seq%d' % k), inner, [T('empty')], opts]
        elif kind in ('inmix', 'inbmix') and kind == 'inbmix':
            # the same mixed sequence through the batched renderer
            ns['seq%d' % k] = ['probe', 'seq%d' % k, [
                'seq', 'list', [['obj', {'e': ['lit', 1]}], ['lit', 's'],
                                ['pair', ['lit', 'k'],
                                 ['obj', {'e': ['lit', 2]}]],
                                ['lit', 5], ['lit', 't']]]]
            n = ['in', N('seq%d' % k), inner, [T('empty')],
                 [['size', '4'], ['orphan', '0']]]
        elif kind == 'inmix':
            # pushed and never-pushed items in one sequence: objects, a bare
            # string, a (key, object) pair, a number
            ns['seq%d' % k] = ['probe', 'seq%d' % k, [
                'seq', 'list', [['obj', {'e': ['lit', 1]}], ['lit', 's'],
                                ['pair', ['lit', 'k'],
                                 ['obj', {'e': ['lit', 2]}]],
                                ['lit', 5], ['lit', 't']]]]
            n = ['in', N('seq%d' % k), inner, [T('empty')], []]
        elif kind in ('inempty', 'inbempty'):
            # empty sequence: the blocks live in the else branch
            ns['seq%d' % k] = ['probe', 'seq%d' % k, ['seq', 'list', []]]
            opts = [['size', '2']] if kind == 'inbempty' else []
            n = ['in', N('seq%d' % k), [T('body')], inner, opts]
        elif kind == 'if2':
            # two conditions given by name are evaluated before a branch
            # is taken
            ns['c%d' % k] = ['probe', 'c%d' % k, ['lit', 0]]
            ns['d%d' % k] = ['probe', 'd%d' % k, ['lit', 0]]
            ns['e%d' % k] = ['probe', 'e%d' % k, ['lit', 1]]
            n = ['if', [[N('c%d' % k), [T('no')]], [N('d%d' % k), [T('no')]],
                        [N('e%d' % k), inner]],
                 [self.probe('else%d' % k)]]
        elif kind in ('insortx', 'inbvars'):
            # the sequence by name; sort / reverse expressions (insortx) or
            # the batch parameters (inbvars) are invocation points that may
            # raise while the tag prepares the sequence
            ns['seq%d' % k] = ['probe', 'seq%d' % k, [
                'seq', 'list', [['obj', {'e': ['lit', 2]}],
                                ['obj', {'e': ['lit', 1]}]]]]
            if kind == 'insortx':
                ns['sx%d' % k] = ['probe', 'sx%d' % k, ['lit', 'e']]
                ns['rx%d' % k] = ['probe', 'rx%d' % k, ['lit', 1]]
                opts = [['sort_expr', 'sx%d()' % k],
                        ['reverse_expr', 'rx%d()' % k]]
            else:
                for p_ in ('st', 'sz', 'orp', 'ov'):
                    ns['%s%d' % (p_, k)] = ['probe', '%s%d' % (p_, k),
                                            ['lit', 1]]
                opts = [['start', 'st%d' % k], ['size', 'sz%d' % k],
                        ['orphan', 'orp%d' % k], ['overlap', 'ov%d' % k]]
            n = ['in', N('seq%d' % k), inner, [T('empty')], opts]
        elif kind in ('ingd', 'ingdx', 'inbgd'):
            # the namespace carries an item guard that refuses every second
            # item (after one that was pushed): skipped (ingd, inbgd) or
            # reported by an exception that leaves the loop (ingdx)
            ns['gdseq%d' % k] = ['probe', 'gdseq%d' % k, [
                'seq', 'list', [['obj', {'e': ['lit', 1]}],
                                ['obj', {'refuse_item': ['lit', 1]}],
                                ['obj', {'e': ['lit', 3]}],
                                ['obj', {'refuse_item': ['lit', 1]}]]]]
            opts = [] if kind == 'ingdx' else [['skip_unauthorized', None]]
            if kind == 'inbgd':
                opts += [['size', '4'], ['orphan', '0']]
            n = ['in', N('gdseq%d' % k), inner, None, opts]
        elif kind in ('inmap', 'inbmap'):
            # mappings as items, one of them empty (a falsy frame)
            ns['seq%d' % k] = ['probe', 'seq%d' % k, [
                'seq', 'tuple', [['map', {'e': ['lit', 1]}], ['map', {}],
                                 ['map', {'e': ['lit', 2]}]]]]
            opts = [['mapping', None]]
            if kind == 'inbmap':
                opts += [['size', '3'], ['orphan', '0']]
            n = ['in', N('seq%d' % k), inner, None, opts]
        elif kind == 'with':
            ns['obj%d' % k] = ['probe', 'obj%d' % k,
                               ['obj', {'w': ['lit', 1]}]]
            n = ['with', N('obj%d' % k), inner, []]
        elif kind == 'withonly':
            ns['obj%d' % k] = ['probe', 'obj%d' % k, ['obj', {
                'wp': ['probe', 'only%d' % k, ['lit', '']]}]]
            n = ['with', N('obj%d' % k), [T('o'), ['var', N('wp'), []]],
                 ['only']]
        elif kind == 'let':
            ns['la%d' % k] = ['probe', 'la%d' % k, ['lit', 1]]
            ns['lb%d' % k] = ['probe', 'lb%d' % k, ['lit', 2]]
            n = ['let', [['a%d' % k, N('la%d' % k)],
                         ['b%d' % k, E('lb%d()' % k)]], inner]
        elif kind == 'if':
            ns['c%d' % k] = ['probe', 'c%d' % k, ['lit', 0]]
            ns['d%d' % k] = ['probe', 'd%d' % k, ['lit', 1]]
            n = ['if', [[N('c%d' % k), [T('no')]],
                        [E('d%d()' % k), inner]],
                 [self.probe('else%d' % k)]]
        elif kind == 'try':
            n = ['try', inner,
                 [[['HA'], [T('h'), self.probe('h%d' % k)]],
                  [[], [T('g'), self.probe('g%d' % k)]]],
                 [T('e'), self.probe('e%d' % k)]]
        elif kind == 'tryh':
            ns['boom%d' % k] = ['raiser', 'boom%d' % k, 'HC', 'x']
            n = ['try', [T('t'), ['var', N('boom%d' % k), []]],
                 [[['HA'], inner]], None]
        elif kind == 'tryhu':
            # the handled exception's message (and so the traceback text
            # the handler binds) has characters outside every codec
            ns['boom%d' % k] = ['raiser', 'boom%d' % k, 'HC',
                                'x\udcff\u20ac\u3000']
            n = ['try', [T('t'), ['var', N('boom%d' % k), []]],
                 [[['HA'], inner]], None]
        elif kind == 'tryf':
            n = ['tryf', inner, [T('f'), self.probe('f%d' % k)]]
        elif kind == 'fin':
            n = ['tryf', [T('t'), self.probe('t%d' % k)], inner]
        elif kind == 'raise':
            n = ['try', [['raise', E('HXc'), inner]],
                 [[['HX'], [T('r'), self.probe('r%d' % k)]]], None]
        elif kind == 'sub':
            # construction-time defaults and a value set with var(): two
            # frames of its own on top of the caller's namespace
            ns['sub%d' % k] = ['tmpl', inner, {'sd%d' % k: ['lit', 1]},
                               {'tv%d' % k: ['lit', 2]}]
            n = ['var', N('sub%d' % k), []]
        elif kind == 'subtuple':
            # a sub-template called from an expression on the caller's
            # namespace, with a tuple of two client objects
            ns['sub%d' % k] = ['tmpl', inner, {'sd%d' % k: ['lit', 1]}]
            ns['ca%d' % k] = ['obj', {'ca': ['lit', 1]}]
            ns['cb%d' % k] = ['obj', {'cb': ['lit', 2]}]
            n = ['var', E('sub%d((ca%d, cb%d), _)' % (k, k, k)), []]
        elif kind == 'subnone':
            # ... with a client path one of whose steps is None
            ns['sub%d' % k] = ['tmpl', inner, {'sd%d' % k: ['lit', 1]}]
            ns['nn%d' % k] = ['lit', None]
            ns['cb%d' % k] = ['obj', {'cb': ['lit', 2]}]
            n = ['var', E('sub%d((nn%d, cb%d, nn%d), _)' % (k, k, k, k)), []]
        elif kind in ('innext', 'inprev'):
            # the stand-alone next / previous forms: the section is rendered
            # once when there is an adjacent batch (else the else section)
            ns['seq%d' % k] = ['probe', 'seq%d' % k, [
                'seq', 'list', [['obj', {'e': ['lit', i]}]
                                for i in range(12)]]]
            opts = [['size', '10'], ['next', None]] if kind == 'innext' \
                else [['size', '10'], ['start', '11'], ['previous', None]]
            n = ['in', N('seq%d' % k), inner, [T('empty')], opts]
        elif kind == 'subclient':
            # ... with a single client object and a keyword argument
            ns['sub%d' % k] = ['tmpl', inner, {'sd%d' % k: ['lit', 1]}]
            ns['ca%d' % k] = ['obj', {'ca': ['lit', 1]}]
            n = ['var', E('sub%d(ca%d, _, kw%d=1)' % (k, k, k)), []]
        elif kind == 'treedm':
            # leaves / expand / header / footer name documents that do not
            # exist
            n = ['tree', N('root'), [T('r'), self.probe('row%d' % k)],
                 [['leaves', 'nold%d' % k], ['expand', 'noed%d' % k],
                  ['header', 'nohd%d' % k], ['footer', 'noft%d' % k]]]
        elif kind == 'treedp':
            # ... that exist and may raise: the leaves document is rendered
            # for every expanded childless node, header / footer around the
            # children of every expanded node
            ns['ld%d' % k] = ['tmpl', [T('L'), self.probe('leafdoc%d' % k)],
                              {}]
            ns['hd%d' % k] = ['tmpl', [T('H'), self.probe('headdoc%d' % k)],
                              {}]
            ns['fd%d' % k] = ['tmpl', [T('F'), self.probe('footdoc%d' % k)],
                              {}]
            n = ['tree', N('root'), [T('r'), self.probe('row%d' % k)],
                 [['leaves', 'ld%d' % k], ['header', 'hd%d' % k],
                  ['footer', 'fd%d' % k]]]
        elif kind == 'treeed':
            # the expand document stands for the children of an expanded
            # node; the other documents are None or missing
            ns['ed%d' % k] = ['tmpl', [T('X'), self.probe('expdoc%d' % k)],
                              {}]
            ns['hd%d' % k] = ['lit', None]
            n = ['tree', N('root'), [T('r'), self.probe('row%d' % k)],
                 [['expand', 'ed%d' % k], ['header', 'hd%d' % k],
                  ['leaves', 'nold%d' % k], ['footer', 'noft%d' % k]]]
        elif kind.startswith('e-'):
            # blocks with a completely *empty* section (no text, no tag):
            # nothing to render there, but what was pushed for it -- or was
            # not yet pushed -- must balance all the same
            kk = kind[2:]
            ns['boom%d' % k] = ['raiser', 'boom%d' % k, 'HC', 'x']
            ns['seq%d' % k] = ['probe', 'seq%d' % k, [
                'seq', 'list', [['obj', {'e': ['lit', 1]}],
                                ['obj', {'e': ['lit', 2]}]]]]
            ns['mseq%d' % k] = ['probe', 'mseq%d' % k, [
                'seq', 'tuple', [['map', {'e': ['lit', 1]}], ['map', {}]]]]
            ns['none%d' % k] = ['probe', 'none%d' % k, ['seq', 'list', []]]
            ns['obj%d' % k] = ['probe', 'obj%d' % k,
                               ['obj', {'w': ['lit', 1]}]]
            ns['c%d' % k] = ['probe', 'c%d' % k, ['lit', 1]]
            ns['z%d' % k] = ['probe', 'z%d' % k, ['lit', 0]]
            boom = [T('t'), ['var', N('boom%d' % k), []]]
            if kk == 'tryh':
                n = ['try', boom, [[['HA'], []]], None]
            elif kk == 'tryh0':
                n = ['try', boom, [[[], []]], None]
            elif kk == 'try':
                n = ['try', [], [[['HA'], [self.probe('h%d' % k)]]],
                     [self.probe('e%d' % k)]]
            elif kk == 'tryelse':
                n = ['try', [self.probe('t%d' % k)],
                     [[['HA'], [self.probe('h%d' % k)]]], []]
            elif kk == 'tryf':
                n = ['tryf', [], [self.probe('f%d' % k)]]
            elif kk == 'fin':
                n = ['tryf', [self.probe('t%d' % k)], []]
            elif kk == 'in':
                n = ['in', N('seq%d' % k), [], None, []]
            elif kk == 'inb':
                n = ['in', N('seq%d' % k), [], None,
                     [['size', '1'], ['orphan', '0']]]
            elif kk == 'inmap':
                n = ['in', N('mseq%d' % k), [], None, [['mapping', None]]]
            elif kk == 'inelse':
                n = ['in', N('none%d' % k), [self.probe('b%d' % k)], [], []]
            elif kk == 'with':
                n = ['with', N('obj%d' % k), [], []]
            elif kk == 'let':
                n = ['let', [['a%d' % k, N('c%d' % k)]], []]
            elif kk == 'if':
                n = ['if', [[N('c%d' % k), []]], [self.probe('el%d' % k)]]
            elif kk == 'ifelse':
                n = ['if', [[N('z%d' % k), [self.probe('th%d' % k)]]], []]
            elif kk == 'raise':
                n = ['try', [['raise', E('HXc'), []]],
                     [[['HX'], [self.probe('r%d' % k)]]], None]
            else:
                ns['sub%d' % k] = ['tmpl', [], {'sd%d' % k: ['lit', 1]}]
                n = ['var', N('sub%d' % k), []]
        elif kind == 'tree':
            n = ['tree', N('root'), [T('r'), self.probe('row%d' % k)], []]
        elif kind == 'treex':
            ns['pf%d' % k] = ['probef', 'pf%d' % k]
            n = ['tree', N('root'), [T('r'), self.probe('row%d' % k)],
                 [['branches_expr', 'pf%d(kids)' % k]]]
        else:
            raise ValueError(kind)
        return [pre, n, post]

    def body(self, nodes):
        out = []
        for node in nodes:
            out += self.block(node)
        return out


def flat_kinds(forest):
    for kind, kids in forest:
        yield kind
        for k in flat_kinds(kids):
            yield k


def build(forest):
    b = Builder()
    nodes = [T('<')] + b.body(forest) + [T('>')]
    b.ns['HXc'] = ['exc', 'HX']
    return nodes, b.ns, b.kinds


def cases(tier):
    maxn = 3 if tier == 'quick' else 4
    idx = 0
    for n in range(1, maxn + 1):
        kinds = KINDS
        if n == 3 and tier == 'quick':
            kinds = ('in', 'inmap', 'with', 'let', 'if', 'try', 'tryh',
                     'fin', 'sub', 'treex')
        if n == 3 and tier != 'quick':
            # three blocks: the 31 kinds with a probed section (the kinds
            # with an empty section etc. are combined in pairs only)
            kinds = KINDS[:31]
        if n == 4:
            kinds = ('in', 'with', 'let', 'if', 'try', 'tryh', 'tryf',
                     'fin', 'sub', 'treex')
        for forest in forests(n, kinds):
            idx += 1
            core = ('in', 'inmap', 'with', 'let', 'if', 'try', 'tryh',
                    'fin', 'sub', 'treex', 'tryf', 'raise')
            pairs = n <= 2 if tier == 'quick' else (
                n <= 2 or (n == 3 and all(k in core for k in
                                          flat_kinds(forest))))
            yield {'forest': forest, 'pairs': pairs,
                   'syntax': SYNTAXES[idx % 3]}
            if n <= 2 and any(k.startswith('sub')
                              for k in flat_kinds(forest)):
                # the same program entered at recursion level 200: the
                # sub-template call is refused by the recursion guard
                # (SystemError) - nothing may stay behind then either
                yield {'forest': forest, 'pairs': False, 'level0': 200,
                       'syntax': SYNTAXES[idx % 3]}


# ---------------------------------------------------------------- execution

class TNode:
    def __init__(self, ident, kids=()):
        self.ident = ident
        self.kids = list(kids)

    def tpId(self):
        return self.ident

    def tpURL(self):
        return self.ident

    def tpValues(self):
        return self.kids


class Response:
    def setCookie(self, *a, **kw):
        pass


class SnapWorld(World):
    """World whose probes also record the state of the namespace stack."""

    def __init__(self, *a, **kw):
        World.__init__(self, *a, **kw)
        self.md = None
        self.snaps = []
        self.fired = 0

    def point(self, ident):
        md = self.md
        data = md._data
        res = []
        for s in ('s1', 's2', 's3'):
            try:
                res.append(id(md.getitem(s, 0)))
            except KeyError:
                res.append(None)
        self.snaps.append((ident, tuple(id(f) for f in data), md.level,
                           tuple(res)))
        k = self.ordinal + 1
        if (self.faults.get(k) or self.faults.get(str(k))):
            self.fired += 1
        World.point(self, ident)


def refusing_getitem(seq, index):
    from zExceptions import Unauthorized
    v = seq[index]
    if getattr(v, 'refuse_item', False):
        raise Unauthorized('item %d' % index)
    return v


def execute(nodes, ns, syntax, faults, cache=None, level0=3):
    from DocumentTemplate._DocumentTemplate import TemplateDict
    w = SnapWorld('impl', syntax, None, faults)
    built = w.build_ns(ns)
    sent = [object(), object(), object()]
    f1 = dict(built)
    f1.update({'s1': sent[0], 'URL': 'http://h/u', 'RESPONSE': Response(),
               'expand_all': 1,
               'root': TNode('r', [TNode('a', [TNode('a1')]), TNode('b')])})
    if '"leaves", "ld' in json.dumps(nodes):
        # a leaves document is rendered for expanded childless nodes only,
        # and expand_all expands just the nodes that have children: hand in
        # a stored state with every node expanded instead
        from TreeDisplay.TreeTag import encode_seq
        del f1['expand_all']
        f1['tree-s'] = encode_seq((['r', [['a', [['a1', []]]], ['b', []]]],))
    f2 = {'s2': sent[1]}
    f3 = {'s3': sent[2]}
    md = TemplateDict()
    for f in (f1, f2, f3):
        md._push(f)
    md.level = level0
    # what String.__call__ sets on the namespace of a top-level call
    md.guarded_getattr = None
    md.guarded_getitem = None
    if any(k_.startswith('gdseq') for k_ in ns):
        md.guarded_getitem = refusing_getitem
    w.md = md
    before = (tuple(id(f) for f in md._data), md.level)
    if cache is not None and 't' in cache:
        src, t = cache['src'], cache['t']
    else:
        src = ast.to_source(nodes, syntax)
        t = ast.template_class(syntax)(src)
        if cache is not None:
            # compiled once per program; C17 owns "rendering leaves no
            # state behind", replays always compile afresh
            cache['src'], cache['t'] = src, t
    try:
        t(None, md)
        how = 'ok'
    except CaseTimeout:
        raise
    except Exception as e:
        how = 'exc:' + type(e).__name__
    after = (tuple(id(f) for f in md._data), md.level)
    return w, before, after, how, src, tuple(id(s) for s in sent)


def judge(res, case, nodes, ns, pairs, faults, label, cache=None):
    w, before, after, how, src, sent = execute(nodes, ns, case['syntax'],
                                               faults, cache,
                                               case.get('level0', 3))
    fk = '+'.join(sorted({f[0] for f in faults.values()})) or 'none'
    if case.get('level0', 3) != 3:
        fk += '@level%d' % case['level0']
    sub = dict(case, faults={str(k): v for k, v in faults.items()})
    kinds = sorted(set(flat_kinds(case['forest'])))

    def where():
        # the innermost block whose probes surround the last fault point
        if not faults:
            return 'fault-free'
        last = max(int(k) for k in faults)
        if last <= len(w.snaps):
            return w.snaps[last - 1][0].rstrip('0123456789')
        return '?'

    # block-level clause first: it names the block that leaked
    leaked = None
    open_pre = {}
    for ident, frames, level, resolved in w.snaps:
        if ident.startswith('pre'):
            open_pre[ident[3:]] = (frames, level)
        elif ident.startswith('post') and ident[4:] in open_pre:
            if open_pre[ident[4:]] != (frames, level):
                leaked = pairs.get(ident[4:], '?')
                res.violate('restored-after-block',
                            'after-block:%s:%s' % (fk, leaked),
                            {'source': src, 'block': ident[4:],
                             'depth_before': len(open_pre[ident[4:]][0]),
                             'depth_after': len(frames),
                             'level_before': open_pre[ident[4:]][1],
                             'level_after': level,
                             'faults': sub['faults']}, sub)
                break
    if leaked is None:
        for ident, frames, level, resolved in w.snaps:
            if resolved != sent and not ident.startswith('only'):
                res.violate('sentinels', 'sentinel:%s:at-%s' % (fk, where()),
                            {'source': src, 'at': ident,
                             'faults': sub['faults']}, sub)
                leaked = 'sentinel'
                break
    if after != before and leaked is None:
        d = len(after[0]) - len(before[0])
        what = 'level' if after[0] == before[0] else \
            ('frames%+d' % d if d else 'frames-reordered')
        res.violate('restored-after-call',
                    'after-call:%s:%s:at-%s' % (what, fk, where()),
                    {'source': src, 'outcome': how, 'depth_before':
                     len(before[0]), 'depth_after': len(after[0]),
                     'level_after': after[1], 'faults': sub['faults'],
                     'trace': [s[0] for s in w.snaps]}, sub)
    return w


def flat_kinds(forest):
    for kind, kids in forest:
        yield kind
        for k in flat_kinds(kids):
            yield k


def culprit(kinds):
    return '+'.join(kinds)


def run(case):
    res = Res()
    nodes, ns, pairs = build(case['forest'])
    if 'faults' in case:
        faults = {int(k): v for k, v in case['faults'].items()}
        judge(res, case, nodes, ns, pairs, faults, 'replay')
        res.nontrivial = True
        return res
    runs = fired = 0
    cache = {}
    w0 = judge(res, case, nodes, ns, pairs, {}, 'none', cache)
    runs += 1
    n0 = w0.ordinal
    for k in range(1, n0 + 1):
        for f in (['raise', 'HB'], ['return', 'RV']):
            w1 = judge(res, case, nodes, ns, pairs, {k: f}, 'one', cache)
            runs += 1
            fired += 1 if w1.fired else 0
            if not case['pairs']:
                continue
            for j in range(k + 1, w1.ordinal + 1):
                for g in (['raise', 'HA'], ['return', 'R2']):
                    w2 = judge(res, case, nodes, ns, pairs, {k: f, j: g},
                               'two', cache)
                    runs += 1
                    fired += 1 if w2.fired == 2 else 0
    res.evals = runs
    res.nt_count = fired
    res.sample = {'source': ast.to_source(nodes, case['syntax']),
                  'invocation_points': n0}
    res.count('programs')
    res.count('invocation_points', n0)
    res.outcome = 'blocks=%d' % len(list(flat_kinds(case['forest'])))
    return res


def finalize(tier, agg):
    if agg['nontrivial'] < 5000:
        raise HarnessFault('vacuous: too few runs with a fired fault')
    return {'programs': agg['counters'].get('programs', 0),
            'invocation_points': agg['counters'].get('invocation_points', 0)}
