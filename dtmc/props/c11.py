"""C11 - batch windows stay in range, tile the sequence and link consistently.

Space: the whole integer grid of (length, start, end, size, orphan, overlap);
every tuple is executed on the real code three ways (opt() directly, a
rendered <dtml-in> with literal attributes, the same through variables), plus
a navigation graph search: states = windows, transitions = the
next-/previous-sequence-start-number printed by the implementation.
"""

import itertools
import re

from ..core import CaseTimeout
from ..core import HarnessFault
from ..core import Res

ID = 'C11'
LEVEL = 'model_checking'
MANIFEST = {
    'technique': 'exhaustive grid enumeration + explicit-state walk of the batch navigation graph on the real renderer',
    'text': 'Every tuple of the 5-dimensional batch parameter grid (per tier) is executed on the real code (opt(), rendered dtml-in with literals and through variables) and judged against a reference window model; the navigation graph (windows = states, printed next/previous start numbers = transitions) is walked to its end for every (length,size,orphan,overlap<size); at every visited window the next/previous forms of the tag and the next-batches / previous-batches lists are compared with the windows and announcements actually met.',
    'more': 'Also: parameters reaching the tag through variables as texts int() understands (padded with any white space, signed, full-width digits); a start variable that is undefined or not a number (= start 1).',
    'note': 'Trusted: the 15-line reference window model in dtmc/props/c11.py; integer elements in a list; the exact window is pinned only for the start+size form as the statement says; the announced next start / previous end are judged for every way of asking for a batch (size omitted or < 1, explicit end, overlap >= size).',
}
RULE = ('every tuple of the integer grid (length x start x end x size x '
        'orphan x overlap) stated per tier, each run through opt(), a '
        'rendered dtml-in with literal attributes and (quick grid) with '
        'variables; plus, for every (length,size,orphan,overlap<size), the '
        'navigation graph whose states are windows and whose transitions are '
        'the next-/previous-sequence-start-number values the implementation '
        'printed, walked to its end.  A case (block of the grid) is '
        'non-trivial when at least one of its windows is a proper sub-range '
        'of the sequence.')
ASSUMPTIONS = [
    'elements are the integers 1..length held in a list (C12 covers lazy '
    'suppliers)',
    'clause (ii) pins the exact window only for the start+size form; other '
    'parameter mixes are held to the range/contiguity clause',
]

GRIDS = {
    'quick': dict(L=range(0, 9), se=range(-1, 11), size=range(-1, 6),
                  orphan=range(0, 4), overlap=range(0, 4)),
    'thorough': dict(L=range(0, 15), se=range(-1, 17), size=range(-1, 8),
                     orphan=range(0, 5), overlap=range(0, 4)),
}

BODY = ('[<dtml-var sequence-number>;<dtml-var previous-sequence>;'
        '<dtml-var next-sequence>;'
        '<dtml-if previous-sequence><dtml-var previous-sequence-start-number>,'
        '<dtml-var previous-sequence-end-number>,'
        '<dtml-var previous-sequence-size></dtml-if>;'
        '<dtml-if next-sequence><dtml-var next-sequence-start-number>,'
        '<dtml-var next-sequence-end-number>,'
        '<dtml-var next-sequence-size></dtml-if>;'
        '<dtml-var sequence-start>;<dtml-var sequence-end>]')
ROW = re.compile(r'\[(\d+);(\d);(\d);([\d,-]*);([\d,-]*);(\d);(\d)\]')


def cases(tier):
    g = GRIDS[tier]
    modes = ['opt', 'lit', 'var'] if tier == 'quick' else ['opt', 'lit']
    for L in g['L']:
        for size in g['size']:
            for orphan in g['orphan']:
                yield {'mode': 'opt', 'L': L, 'size': size, 'orphan': orphan,
                       'overlap': 0, 'se': [g['se'][0], g['se'][-1]]}
                for overlap in g['overlap']:
                    for mode in modes[1:]:
                        yield {'mode': mode, 'L': L, 'size': size,
                               'orphan': orphan, 'overlap': overlap,
                               'se': [g['se'][0], g['se'][-1]]}
                    if overlap <= 1 and orphan <= 2:
                        # the same windows over the reversed sequence
                        yield {'mode': 'rev', 'L': L, 'size': size,
                               'orphan': orphan, 'overlap': overlap,
                               'se': [g['se'][0], g['se'][-1]],
                               'end_fixed': 0}
                    if size >= 1 and overlap < size and L >= 1:
                        yield {'mode': 'nav', 'L': L, 'size': size,
                               'orphan': orphan, 'overlap': overlap}
    # scaled grid instead of random large values
    scaled = [(20, 7), (37, 10)] if tier == 'quick' else \
        [(20, 7), (37, 10), (100, 25), (64, 8)]
    for L, size in scaled:
        for orphan in (0, 2, 5):
            for overlap in (0, 1, 3):
                yield {'mode': 'nav', 'L': L, 'size': size, 'orphan': orphan,
                       'overlap': overlap}
                yield {'mode': 'var', 'L': L, 'size': size, 'orphan': orphan,
                       'overlap': overlap, 'se': [-1, L + 2], 'end_fixed': 0}
    # attributes absent altogether (only start / only size / only end ...)
    for L in g['L']:
        for given in itertools.product((0, 1), repeat=5):
            if not (given[0] or given[1] or given[2]):
                continue
            yield {'mode': 'subset', 'L': L, 'given': list(given)}


# -- reference model ---------------------------------------------------------

def ref_window(L, start, end, size, orphan):
    """The window as far as the statement fixes it, else None."""
    if start > 0 and end <= 0 and size >= 1:
        s = min(start, L)
        e = s + size - 1
        if e > L or L - e < orphan:
            e = L
        return (s, e)
    return None


def shape(L, start, end, size, orphan):
    return 'start%s,end%s,size%s' % (
        '>L' if start > L else ('>0' if start > 0 else '<=0'),
        '>L' if end > L else ('>0' if end > 0 else '<=0'),
        '>=1' if size >= 1 else '<1')


# -- execution ---------------------------------------------------------------

_templates = {}


def _var_template():
    from DocumentTemplate import HTML
    t = _templates.get('var')
    if t is None:
        t = HTML('<dtml-in seq start=pstart end=pend size=psize '
                 'orphan=porphan overlap=poverlap>' + BODY +
                 '<dtml-else>EMPTY</dtml-in>')
        _templates['var'] = t
    return t


ITEM = re.compile(r'\{(\d+)\}\[(\d+);')


def render_lit(L, start, end, size, orphan, overlap, given=None,
               reverse=False):
    from DocumentTemplate import HTML
    attrs = ['reverse'] if reverse else []
    vals = dict(start=start, end=end, size=size, orphan=orphan,
                overlap=overlap)
    for i, k in enumerate(('start', 'end', 'size', 'orphan', 'overlap')):
        if given is None or given[i]:
            attrs.append('%s=%d' % (k, vals[k]))
    src = ('<dtml-in seq %s>' % ' '.join(attrs) +
           ('{<dtml-var sequence-item>}' if reverse else '') + BODY +
           '<dtml-else>EMPTY</dtml-in>')
    t = _templates.get(src)
    if t is None:
        if len(_templates) > 5000:
            _templates.clear()
        t = _templates[src] = HTML(src)
    out = t(seq=list(range(1, L + 1)))
    if reverse:
        # the windows are windows of positions; position p of the reversed
        # sequence shows element L+1-p
        for item, number in ITEM.findall(out):
            if int(item) != L + 1 - int(number):
                return 'position %s shows element %s of %d' % (number, item, L)
        out = re.sub(r'\{\d+\}', '', out)
    return out


def _form_template(form):
    """the stand-alone "next" / "previous" forms of the tag: they announce
    the neighbouring batch and show no elements"""
    from DocumentTemplate import HTML
    t = _templates.get('form:' + form)
    if t is None:
        t = HTML('<dtml-in seq start=pstart size=psize orphan=porphan '
                 'overlap=poverlap %s><dtml-if %s-sequence>1<dtml-else>0'
                 '</dtml-if>:<dtml-var %s-sequence-start-number>,'
                 '<dtml-var %s-sequence-end-number>,<dtml-var '
                 '%s-sequence-size><dtml-else>NONE</dtml-in>'
                 % (form, form, form, form, form))
        _templates['form:' + form] = t
    return t


def _batches_template():
    """the lists of all following / preceding batches, as the first and last
    displayed rows see them"""
    from DocumentTemplate import HTML
    t = _templates.get('batches')
    if t is None:
        item = ('<dtml-var batch-start-index>,<dtml-var batch-end-index>,'
                '<dtml-var batch-size>;')
        t = HTML('<dtml-in seq start=pstart size=psize orphan=porphan '
                 'overlap=poverlap><dtml-if sequence-start>'
                 '<dtml-in previous-batches mapping>' + item + '</dtml-in>'
                 '</dtml-if><dtml-if sequence-end>|'
                 '<dtml-in next-batches mapping>' + item + '</dtml-in>'
                 '</dtml-if></dtml-in>')
        _templates['batches'] = t
    return t


def render_batches(L, start, size, orphan, overlap):
    """-> (previous batches, next batches) as lists of (first, last) element
    numbers, nearest batch first"""
    out = _batches_template()(seq=list(range(1, L + 1)), pstart=start,
                              psize=size, porphan=orphan, poverlap=overlap)
    res = []
    for part in out.split('|'):
        lst = []
        for it in part.split(';'):
            if it:
                a, b, z = (int(x) for x in it.split(','))
                if z != b + 1 - a:
                    return None
                lst.append((a + 1, b + 1))
        res.append(lst)
    return res if len(res) == 2 else None


def render_form(form, L, start, size, orphan, overlap):
    out = _form_template(form)(seq=list(range(1, L + 1)), pstart=start,
                               psize=size, porphan=orphan, poverlap=overlap)
    if out == 'NONE':
        return None
    flag, _, nums = out.partition(':')
    if flag != '1':
        # inside the form's body <form>-sequence itself is true
        return ['%s-sequence is false' % form, out]
    return [int(x) for x in nums.split(',')]


class UndefinedStart(Exception):
    pass


FULLWIDTH = str.maketrans('0123456789', '\uff10\uff11\uff12\uff13\uff14'
                          '\uff15\uff16\uff17\uff18\uff19')
SPELLINGS = [int, str, lambda n: ' %d' % n, lambda n: '%d\n' % n,
             lambda n: '\t%d ' % n, lambda n: ('+%d' % n) if n >= 0 else
             ' %d' % n, lambda n: '%d\r\n' % n, lambda n: '\xa0%d\x85' % n,
             lambda n: str(n).translate(FULLWIDTH),
             lambda n: '\x0c%d\x0b' % n, lambda n: '\u3000%d' % n]


def render_var(L, start, end, size, orphan, overlap, as_str=False):
    """as_str: False = integers; True / k = one of the spellings of a
    number as text that int() understands (padded, signed, other digits)"""
    c = SPELLINGS[int(as_str or 0) % len(SPELLINGS)]
    if start == 1 and as_str is not None:
        # "start=name" with the name undefined (the first page of a listing
        # driven by a request variable) is start 1; so is a value that is
        # no number
        want = render_var(L, 1, end, size, orphan, overlap, None)
        for bad in (None, '', 'abc'):
            kw = dict(seq=list(range(1, L + 1)), pend=c(end), psize=c(size),
                      porphan=c(orphan), poverlap=c(overlap))
            if bad is not None:
                kw['pstart'] = bad
            got = _var_template()(**kw)
            if got != want:
                raise UndefinedStart(repr(bad), got, want)
    if as_str is None:
        c = int
    return _var_template()(seq=list(range(1, L + 1)), pstart=c(start),
                           pend=c(end), psize=c(size), porphan=c(orphan),
                           poverlap=c(overlap))


def parse_rows(out):
    if out == 'EMPTY':
        return 'EMPTY'
    rows = ROW.findall(out)
    if ''.join('[%s]' % ';'.join(r) for r in rows) != out:
        return None
    res = []
    for n, prev, nxt, pinfo, ninfo, st, en in rows:
        res.append({
            'n': int(n), 'prev': int(prev), 'next': int(nxt),
            'pinfo': [int(x) for x in pinfo.split(',')] if pinfo else None,
            'ninfo': [int(x) for x in ninfo.split(',')] if ninfo else None,
            'start': int(st), 'end': int(en)})
    return res


def judge_window(res, sub, L, start, end, size, orphan, s, e, how):
    """range/contiguity and the start+size law on an (s, e) window."""
    sh = shape(L, start, end, size, orphan)
    if not (1 <= s <= e <= L):
        res.violate('range', 'range:%s:%s' % (how, sh),
                    {'window': [s, e], 'L': L}, sub)
        return False
    ref = ref_window(L, start, end, size, orphan)
    if ref is not None:
        res.count('clause_ii_checked')
        if ref != (s, e):
            res.violate('window', 'window:%s:%s' % (how, sh),
                        {'window': [s, e], 'expected': list(ref)}, sub)
            return False
    return True


def judge_rows(res, sub, rows, L, start, end, size, orphan, overlap, how):
    sh = shape(L, start, end, size, orphan)
    if rows is None:
        res.violate('format', 'format:%s' % how, 'unparsable output', sub)
        return None
    if L == 0:
        if rows != 'EMPTY':
            res.violate('empty', 'empty:%s' % how, rows, sub)
        return None
    if rows == 'EMPTY' or not rows:
        res.violate('range', 'range:%s:nothing-shown:%s' % (how, sh),
                    'no element displayed for a non-empty sequence', sub)
        return None
    nums = [r['n'] for r in rows]
    s, e = nums[0], nums[-1]
    if nums != list(range(s, e + 1)):
        res.violate('contiguous', 'contiguous:%s:%s' % (how, sh), nums, sub)
        return None
    if not judge_window(res, sub, L, start, end, size, orphan, s, e, how):
        return None
    # sequence-start / -end exactly on first / last displayed
    for i, r in enumerate(rows):
        if bool(r['start']) != (i == 0) or bool(r['end']) != (i == len(rows) - 1):
            res.violate('startend', 'startend:%s' % how, rows, sub)
            return None
    # (iii) next / previous flags
    for i, r in enumerate(rows):
        exp_next = (i == len(rows) - 1) and e < L
        exp_prev = (i == 0) and s > 1
        if bool(r['next']) != exp_next or bool(r['prev']) != exp_prev:
            res.violate('links', 'linkflag:%s:%s' % (how, sh),
                        {'row': r, 'window': [s, e], 'L': L}, sub)
            return None
    # (iv) the announced neighbours: whatever way the window was asked for
    # (size given, omitted or < 1, explicit end, overlap >= size) the next
    # batch starts at end+1-overlap and the previous one ends at
    # start-1+overlap (clamped into the sequence)
    last, first = rows[-1], rows[0]
    if last['ninfo'] is not None:
        res.count('next_checked')
        ns, ne, nz = last['ninfo']
        want = e + 1 - overlap
        if (ns != want if want >= 1 else ns < 1) or \
                not (ns <= ne <= L) or nz != ne + 1 - ns:
            res.violate('links', 'nextstart:%s' % how,
                        {'ninfo': last['ninfo'], 'window': [s, e],
                         'overlap': overlap, 'L': L}, sub)
    if first['pinfo'] is not None:
        res.count('prev_checked')
        ps, pe, pz = first['pinfo']
        if pe != min(s - 1 + overlap, L) or not (1 <= ps <= pe) or \
                pz != pe + 1 - ps:
            res.violate('links', 'prevend:%s' % how,
                        {'pinfo': first['pinfo'], 'window': [s, e],
                         'overlap': overlap, 'L': L}, sub)
    return (s, e)


def run_block(case):
    from DocumentTemplate.DT_InSV import opt
    res = Res()
    res.evals = 0
    L, size, orphan, overlap = (case['L'], case['size'], case['orphan'],
                                case['overlap'])
    lo, hi = case['se']
    mode = case['mode']
    seq = list(range(1, L + 1))
    ends = range(lo, hi + 1) if case.get('end_fixed', 1) else [0]
    for start in range(lo, hi + 1):
        for end in ends:
            sub = dict(case, se=None, start=start, end=end)
            res.evals += 1
            how = mode
            try:
                if mode == 'opt':
                    if L == 0:
                        continue    # the renderer never calls opt() then
                    if start > 0 and end > L:
                        # opt() deliberately passes an explicit end through
                        # unclamped (pinned by the repository's test_opt);
                        # the renderer clamps it - see the rendered modes.
                        res.count('opt_explicit_end_skipped')
                        continue
                    s, e, sz = opt(start, end, size, orphan, seq)
                    ok = judge_window(res, sub, L, start, end, size, orphan,
                                      s, e, how)
                    win = (s, e) if ok else None
                else:
                    if mode == 'lit':
                        out = render_lit(L, start, end, size, orphan, overlap)
                    elif mode == 'rev':
                        out = render_lit(L, start, end, size, orphan, overlap,
                                         reverse=True)
                    else:
                        out = render_var(L, start, end, size, orphan, overlap,
                                         as_str=(start + 3 * end + 5 * size +
                                                 7 * orphan + L) % 11)
                    win = judge_rows(res, sub, parse_rows(out), L, start, end,
                                     size, orphan, overlap, how)
            except CaseTimeout:
                raise
            except Exception as exc:
                res.violate('range', 'exc:%s:%s:%s' % (
                    type(exc).__name__, how,
                    shape(L, start, end, size, orphan)),
                    '%s: %s' % (type(exc).__name__, exc), sub)
                res.outcome = 'exception'
                continue
            if win and (win[0] > 1 or win[1] < L):
                res.nontrivial = True
                res.count('proper_windows')
    return res


def run_single(case):
    """A sub-case as stored in a replay file."""
    c = dict(case)
    c['se'] = None
    blk = dict(case, se=[case['start'], case['start']])
    res = Res()
    from DocumentTemplate.DT_InSV import opt
    L, size, orphan, overlap = (case['L'], case['size'], case['orphan'],
                                case['overlap'])
    start, end = case['start'], case['end']
    try:
        if case['mode'] == 'opt' and start > 0 and end > L:
            pass
        elif case['mode'] == 'opt':
            s, e, sz = opt(start, end, size, orphan, list(range(1, L + 1)))
            judge_window(res, case, L, start, end, size, orphan, s, e, 'opt')
        else:
            if case['mode'] == 'lit':
                out = render_lit(L, start, end, size, orphan, overlap)
            else:
                out = render_var(L, start, end, size, orphan, overlap,
                                 as_str=(start + 3 * end + 5 * size +
                                         7 * orphan + L) % 11)
            judge_rows(res, case, parse_rows(out), L, start, end, size,
                       orphan, overlap, case['mode'])
    except CaseTimeout:
        raise
    except Exception as exc:
        res.violate('range', 'exc:%s:%s:%s' % (
            type(exc).__name__, case['mode'],
            shape(L, start, end, size, orphan)),
            '%s: %s' % (type(exc).__name__, exc), case)
    del blk, c
    return res


def run_subset(case):
    """Only some of the five attributes present; values from a small set."""
    res = Res()
    res.evals = 0
    L = case['L']
    given = case['given']
    doms = [(1, 2, L, L + 1) if given[0] else (0,),
            (1, 3, L + 2) if given[1] else (0,),
            (1, 2, 3) if given[2] else (0,),
            (0, 1, 2) if given[3] else (0,),
            (0, 1) if given[4] else (0,)]
    for start, end, size, orphan, overlap in itertools.product(*doms):
        res.evals += 1
        sub = dict(case, vals=[start, end, size, orphan, overlap])
        try:
            out = render_lit(L, start, end, size, orphan, overlap, given)
        except CaseTimeout:
            raise
        except Exception as exc:
            res.violate('range', 'exc:%s:subset:%s' % (
                type(exc).__name__, shape(L, start, end, size, orphan)),
                '%s: %s' % (type(exc).__name__, exc), sub)
            continue
        # an absent size is not fixed by the statement: judge range only,
        # and the start+size law when both are present
        win = judge_rows(res, sub, parse_rows(out), L, start, end,
                         size if given[2] else 0, orphan,
                         overlap if given[4] else 0, 'subset')
        if win and (win[0] > 1 or win[1] < L):
            res.nontrivial = True
    return res


def run_nav(case):
    """Navigation graph: follow next from 1, previous from every window."""
    res = Res()
    res.evals = 0
    L, size, orphan, overlap = (case['L'], case['size'], case['orphan'],
                                case['overlap'])

    def window(start):
        res.evals += 1
        rows = parse_rows(render_var(L, start, 0, size, orphan, overlap))
        if not rows or rows == 'EMPTY':
            return None
        return rows

    states = {}
    cur = 1
    covered = []
    steps = 0
    prev_win = None
    sig = 'nav'
    try:
        while True:
            rows = window(cur)
            if rows is None:
                res.violate('nav', 'nav:nothing-shown', {'start': cur}, case)
                return res
            s, e = rows[0]['n'], rows[-1]['n']
            nums = [r['n'] for r in rows]
            if nums != list(range(s, e + 1)) or s != cur:
                res.violate('nav', 'nav:window', {'start': cur, 'nums': nums},
                            case)
                return res
            states[(s, e)] = rows
            res.states += 1
            # the next / previous forms announce what the listing announces
            for form, row, flag, info in (
                    ('next', rows[-1], 'next', 'ninfo'),
                    ('previous', rows[0], 'prev', 'pinfo')):
                res.evals += 1
                want = list(row[info]) if row[flag] and row[info] else None
                got = render_form(form, L, cur, size, orphan, overlap)
                if got != want:
                    res.violate('nav', 'nav:%s-form' % form,
                                {'window': [s, e], 'form_announces': got,
                                 'listing_announces': want}, case)
                    return res
            if prev_win is not None:
                shared = prev_win[1] - s + 1
                if shared != overlap:
                    res.violate('nav', 'nav:overlap',
                                {'prev': prev_win, 'cur': [s, e],
                                 'overlap': overlap}, case)
                    return res
            covered.extend(n for n in nums if not covered or n > covered[-1])
            prev_win = (s, e)
            steps += 1
            if steps > L + 1:
                res.violate('nav', 'nav:does-not-terminate',
                            {'steps': steps}, case)
                return res
            last = rows[-1]
            if last['next']:
                nxt = last['ninfo'][0]
                res.transitions += 1
                if nxt <= s:
                    res.violate('nav', 'nav:no-progress',
                                {'window': [s, e], 'next': nxt}, case)
                    return res
                cur = nxt
            else:
                break
        if covered != list(range(1, L + 1)):
            res.violate('nav', 'nav:coverage',
                        {'covered': covered, 'L': L}, case)
        # the batch lists: next-batches is the list of windows that following
        # the next links goes through; previous-batches is the chain of
        # announced previous batches
        # ... judged at the window of *every* start 1..L (a start typed by
        # hand need not be one the walk from element 1 goes through)
        wcache = {}

        def win(start):
            if start not in wcache:
                wcache[start] = window(start)
            return wcache[start]
        for s0 in range(1, L + 1):
            r0 = win(s0)
            if not r0:
                continue
            s, e = r0[0]['n'], r0[-1]['n']
            res.evals += 1
            got = render_batches(L, s0, size, orphan, overlap)
            follow, r = [], r0
            while r and r[-1]['next'] and r[-1]['ninfo'] and \
                    len(follow) <= L:
                nxt = r[-1]['ninfo'][0]
                if nxt <= r[0]['n']:
                    break
                r = win(nxt)
                if not r:
                    break
                follow.append((r[0]['n'], r[-1]['n']))
            if got is None or got[1] != follow:
                res.violate('nav', 'nav:next-batches',
                            {'window': [s, e], 'next_batches': got and got[1],
                             'windows_reached': follow}, case)
                return res
            chain, cs, r = [], s, r0
            while cs > 1 and r and r[0]['pinfo'] and len(chain) <= L:
                ps, pe, pz = r[0]['pinfo']
                chain.append((ps, pe))
                r = win(ps)
                cs = ps
            chain.reverse()     # listed from the beginning of the sequence
            if got[0] != chain:
                res.violate('nav', 'nav:previous-batches',
                            {'window': [s, e], 'previous_batches': got[0],
                             'announced_chain': chain}, case)
                return res
            res.count('batch_lists_checked')
        # previous links from every visited window reach element 1
        for (s, e), rows in list(states.items()):
            cs, hops = s, 0
            r = rows
            while cs > 1:
                first = r[0]
                if not first['prev'] or first['pinfo'] is None:
                    res.violate('nav', 'nav:prev-missing',
                                {'window': [cs, r[-1]['n']]}, case)
                    break
                ps, pe, pz = first['pinfo']
                res.transitions += 1
                if not (1 <= ps < cs) or pe != min(cs - 1 + overlap, L):
                    res.violate('nav', 'nav:prev-link',
                                {'window': [cs, r[-1]['n']],
                                 'pinfo': first['pinfo']}, case)
                    break
                r = window(ps)
                if r is None or r[0]['n'] != ps:
                    res.violate('nav', 'nav:prev-window', {'start': ps}, case)
                    break
                cs = ps
                hops += 1
                if hops > L + 1:
                    res.violate('nav', 'nav:prev-does-not-terminate',
                                {'from': s}, case)
                    break
    except CaseTimeout:
        raise
    except Exception as exc:
        res.violate('nav', 'nav:exc:%s' % type(exc).__name__,
                    '%s: %s' % (type(exc).__name__, exc), case)
    res.traces = 1
    res.nontrivial = len(states) > 1
    res.outcome = 'nav:%d-windows' % min(len(states), 9)
    del sig
    return res


def run(case):
    mode = case['mode']
    if mode == 'nav':
        return run_nav(case)
    if mode == 'subset':
        return run_subset(case)
    if case.get('se') is None:
        return run_single(case)
    return run_block(case)


def finalize(tier, agg):
    c = agg['counters']
    for k in ('clause_ii_checked', 'next_checked', 'prev_checked',
              'proper_windows', 'batch_lists_checked'):
        if not c.get(k):
            raise HarnessFault('vacuous: counter %s is zero' % k)
    if agg['states'] < 10 or agg['transitions'] < 10:
        raise HarnessFault('vacuous navigation search')
    return {'grid': {k: [v[0], v[-1]] for k, v in GRIDS[tier].items()}}
