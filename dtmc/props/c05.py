"""C05 - security guards mediate every read of client data; '_' names stay
private.

The access channels of the DTML language are written down once as a table of
template schemata (CHANNELS).  Each channel reads attribute ATTR of a client
object that holds a *datum*; the table is crossed with
    attribute kind   public | refused by the policy | _private
    policy           allow everything | refuse this attribute name
    datum            two different values (for sort channels: two orders)
and rendered with a class R(RestrictedDTML, HTML) under a *recording*
AccessControl security policy (every guard path ends in policy.validate).

Oracle
  non-interference  for a refused attribute the two runs (datum 1 / datum 2)
                    give the same output / exception class (and the same
                    element order): refused data reaches neither the output,
                    the namespace nor a sort order
  mediation         if the datum is visible in the output of the allow run,
                    the policy log contains a validate call for that name
  privacy           a _private attribute never appears, with guards that
                    allow everything and with no guards at all; restricted
                    expressions naming _x attributes are rejected
"""

from ..core import CaseTimeout
from ..core import HarnessFault
from ..core import Res

ID = 'C05'
LEVEL = 'exploration'
MANIFEST = {
    'technique': 'exhaustive enumeration of the access-channel table x '
                 'attribute kind x policy x datum under a recording '
                 'security policy; non-interference (two-run) and mediation '
                 '(policy log) oracles',
    'text': 'A table of 140 access channels (client lookup, with / with '
            'only, attribute / item / _.getattr / _[...] access in '
            'expressions, dtml-in items as objects and 2-tuples, '
            'skip_unauthorized, sequence-var-, first-/last-, the ten '
            'statistics, batch -var- variables, sort / sort_expr / two-key '
            'sort, fmt= method formats, let / if / unless / call / return '
            'over expressions, tree branches / id / url / sort) is crossed '
            'with {public, refused, _private} attributes, {allow, refuse} '
            'policies and two datum values and rendered on the real code '
            'with RestrictedDTML under a recording policy: refused data '
            'must not influence output, exception class or order; visible '
            'data must have passed policy.validate; _private data must '
            'never appear, guarded or not.  Attribute channels are run a '
            'second time under a template class that supplies '
            'guarded_getattr only; record objects (attributes and mapping '
            'protocol) are client objects like any other.',
    'more': 'Also: items held by tuples, dict views, sized-but-unsubscriptable collections and iterators (tree branches and dtml-in); underscore names asked for with white space in front of them (quoted name attributes, subscripts of _, no-break spaces). The one-character underscore name _ on the name-lookup channels.',
    'note': 'Trusted: the AccessControl guard functions end in '
            'policy.validate (checked by the self-test); the channel table '
            'is the bound on "every access channel" -- a channel that is '
            'not in the table is not covered.',
}
RULE = ('CHANNELS x attribute kind {public, refused, _private} x policy '
        '{allow, refuse the attribute} x two datum values; every row is '
        'rendered guarded (RestrictedDTML) and, for _private, also '
        'unguarded.  A run is non-trivial when the policy refuses the '
        'attribute or the attribute is _private.')
ASSUMPTIONS = ['items of plain dicts (with ... mapping, in ... mapping) are '
               'not attributes of client objects and are not guarded by '
               'AccessControl either; they are not in the table',
               'a refused read may raise Unauthorized or be skipped; both '
               'are fine as long as the two datum runs agree']
SERIAL = True

D1, D2 = 'DATUM-one', 'DATUM-2'


class Node:
    """client object; everything is readable unless the policy refuses"""

    def __init__(self, **kw):
        self.__dict__.update(kw)

    def tpValues(self):
        return self.__dict__.get('kids', [])

    def __repr__(self):
        return '<Node>'


class Response:
    def setCookie(self, *a, **kw):
        pass


# ---- channel table ---------------------------------------------------------
# (id, template source with ATTR placeholder, namespace builder, flags)
# builder(attr, datum, other) -> (client or None, namespace dict)
# flags: 'order' - the datum is a sort key (two orders), 'truth' - the datum
# is observed through its truth value, 'expr' - ATTR appears in a restricted
# expression (so _private must be rejected at compile / eval time)

def ns_obj(attr, datum, other=None):
    return None, {'o': Node(**{attr: datum, 'pub2': 'P'})}


def ns_nested(attr, datum, other=None):
    return None, {'o': Node(inner=Node(**{attr: datum}))}


def ns_seq_refused(attr, datum, other=None):
    # the *items* are refused (policy mode 'items'); their public data vary
    return None, {'seq': [Node(pubdata=datum, refuse_item=True),
                          Node(pubdata='shown')]}


def ns_tree_refused(attr, datum, other=None):
    kid1 = Node(tpId='k1', tpURL='u1', label=datum, refuse_item=True)
    kid2 = Node(tpId='k2', tpURL='u2', label='L2')
    root = Node(tpId='root', tpURL='r', kids=[kid1, kid2], label='R')
    return None, {'root': root, 'URL': 'http://h/x', 'RESPONSE': Response()}


def ns_tree_refused_many(attr, datum, other=None):
    kids = [Node(tpId='k1', tpURL='u1', label=datum, refuse_item=True),
            Node(tpId='k2', tpURL='u2', label=datum + 'b', refuse_item=True),
            Node(tpId='k3', tpURL='u3', label='L3'),
            Node(tpId='k4', tpURL='u4', label='L4'),
            Node(tpId='k5', tpURL='u5', label='L5')]
    root = Node(tpId='root', tpURL='r', kids=kids, label='R')
    return None, {'root': root, 'URL': 'http://h/x', 'RESPONSE': Response()}


class SizedBag:
    """a collection with a length and an iteration order but no
    subscription (a catalog result wrapper, a dict view, a set)"""

    def __init__(self, items):
        self._items = list(items)

    def __len__(self):
        return len(self._items)

    def __iter__(self):
        return iter(self._items)


def in_container(kind, items):
    if kind == 'tuple':
        return tuple(items)
    if kind == 'view':
        return {i: x for i, x in enumerate(items)}.values()
    if kind == 'bag':
        return SizedBag(items)
    if kind == 'iter':
        return iter(items)
    return items


def other_container(builder, key, kind):
    """the same namespace with the refused items held by another kind of
    collection (what a branches method / a sequence name may hand out)"""
    def build(attr, datum, other=None):
        client, ns = builder(attr, datum, other)
        if key == 'root':
            ns['root'].kids = in_container(kind, ns['root'].kids)
        else:
            ns[key] = in_container(kind, ns[key])
        return client, ns
    return build


class EqNode(Node):
    """distinct objects that compare equal (wrappers of one document)"""

    def __eq__(self, other):
        return isinstance(other, EqNode)

    def __hash__(self):
        return 7


def ns_tree_refused_equal(attr, datum, other=None):
    kids = [EqNode(tpId='k1', tpURL='u1', label='L1'),
            EqNode(tpId='k2', tpURL='u2', label=datum, refuse_item=True),
            Node(tpId='k3', tpURL='u3', label='L3'),
            EqNode(tpId='k4', tpURL='u4', label=datum + 'b',
                   refuse_item=True),
            EqNode(tpId='k5', tpURL='u5', label='L5')]
    root = Node(tpId='root', tpURL='r', kids=kids, label='R')
    return None, {'root': root, 'URL': 'http://h/x', 'RESPONSE': Response()}


def ns_seq_refused_equal(attr, datum, other=None):
    return None, {'seq': [EqNode(pubdata='shown1'),
                          EqNode(pubdata=datum, refuse_item=True),
                          EqNode(pubdata='shown2'),
                          EqNode(pubdata=datum + 'c', refuse_item=True)]}


def prerendered_sub(builder, subsrc):
    """the read happens inside a sub-template of a plain (unguarded) class
    that has been rendered stand-alone (without guards) before"""
    def build(attr, datum, other=None):
        from DocumentTemplate import HTML
        client, ns = builder(attr, datum, other)
        sub = HTML(subsrc.replace('ATTR', attr))
        pre = dict(ns)
        pre.setdefault('o', Node(**{attr: 'pre'}))
        try:
            sub(client, **pre)
        except Exception:
            pass
        ns['presub'] = sub
        return client, ns
    return build


class StrNode(Node):
    """an item whose text form shows its (public) data"""

    def __str__(self):
        return 'item:%s' % self.pubdata


def ns_seq_refused_str(attr, datum, other=None):
    return None, {'seq': [StrNode(pubdata=datum, refuse_item=True),
                          StrNode(pubdata='shown')]}


class RecNode(Node):
    """a record: its fields are attributes *and* keys (result rows, request
    like objects); without `mapping` it is a client object like any other"""

    def keys(self):
        return [k for k in self.__dict__]

    def __getitem__(self, key):
        try:
            return self.__dict__[key]
        except KeyError:
            raise KeyError(key)

    def __len__(self):
        return len(self.__dict__)


def ns_rec(attr, datum, other=None):
    return None, {'o': RecNode(**{attr: datum})}


def ns_client_rec(attr, datum, other=None):
    return RecNode(**{attr: datum}), {}


def ns_seq_rec(attr, datum, other=None):
    return None, {'seq': [RecNode(**{attr: datum, 'ident': 'e1'}),
                          RecNode(**{attr: 'zz-last', 'ident': 'e2'})]}


def ns_client(attr, datum, other=None):
    return Node(**{attr: datum}), {}


def ns_client_tuple(attr, datum, other=None):
    return (Node(other='x'), Node(**{attr: datum})), {}


def ns_client_tuple_first(attr, datum, other=None):
    return (Node(**{attr: datum}), Node(other='x')), {}


def ns_client_seq(attr, datum, other=None):
    return Node(**{attr: [datum, 'tail']}), {}


def ns_client_obj(attr, datum, other=None):
    return Node(**{attr: Node(inner=datum)}), {}


def ns_client_truth(attr, datum, other=None):
    return Node(**{attr: 'yes' if datum == D1 else ''}), {}


def ns_client_sub(attr, datum, other=None):
    from DocumentTemplate import HTML
    return Node(**{attr: datum}), {
        'namesub': HTML('[<dtml-var %s>]' % attr),
        'exprsub': HTML('[<dtml-var "_[\'%s\']">]' % attr)}


def ns_seq_refused_many(attr, datum, other=None):
    return None, {'seq': [Node(pubdata=datum, refuse_item=True),
                          Node(pubdata=datum + 'b', refuse_item=True),
                          Node(pubdata='shown'),
                          Node(pubdata=datum + 'c', refuse_item=True)]}


def after_plain_sub(builder):
    """the same namespace plus a sub-template of a plain (unguarded)
    template class, rendered before the read"""
    def build(attr, datum, other=None):
        from DocumentTemplate import HTML
        client, ns = builder(attr, datum, other)
        ns['plainsub'] = HTML('(sub)')
        return client, ns
    return build


def after_lax_sub(builder, defaults=False):
    """the same namespace plus a sub-template of a class that supplies its
    *own*, all-permitting guards, rendered before the read: the including
    template's guards are in force again afterwards"""
    def build(attr, datum, other=None):
        from DocumentTemplate import HTML

        class Lax(HTML):
            def guarded_getattr(self, *args):
                return getattr(*args)

            def guarded_getitem(self, ob, index):
                return ob[index]
        client, ns = builder(attr, datum, other)
        ns['laxsub'] = Lax('(sub)', laxdefault=1) if defaults \
            else Lax('(sub)')
        return client, ns
    return build


def via_mapping(builder):
    """the client data is reached through a plain mapping `m` that the
    template enters with <dtml-with m mapping only>"""
    def build(attr, datum, other=None):
        client, ns = builder(attr, datum, other)
        return client, {'m': dict(ns)}
    return build


def ns_seq(attr, datum, other=None):
    return None, {'seq': [Node(**{attr: datum, 'ident': 'e1'}),
                          Node(**{attr: other or datum, 'ident': 'e2'})]}


def ns_pairs(attr, datum, other=None):
    return None, {'seq': [('k1', Node(**{attr: datum, 'ident': 'e1'})),
                          ('k2', Node(**{attr: other or datum,
                                         'ident': 'e2'}))]}


def ns_sort(attr, datum, other=None):
    # datum 1: keys (1, 2)   datum 2: keys (2, 1)
    a, b = (1, 2) if datum == D1 else (2, 1)
    return None, {'seq': [Node(**{attr: a, 'ident': 'e1', 'sk': attr}),
                          Node(**{attr: b, 'ident': 'e2'})], 'sk': attr}


def ns_num(attr, datum, other=None):
    a, b = (10, 32) if datum == D1 else (7, 1000)
    return None, {'seq': [Node(**{attr: a}), Node(**{attr: b})]}


def ns_method(attr, datum, other=None):
    return None, {'o': Node(**{attr: (lambda d=datum: d)})}


def ns_tainted(attr, datum, other=None):
    from AccessControl.tainted import TaintedString
    return None, {'o': TaintedString('<' + datum)}


def ns_plain_str(attr, datum, other=None):
    return None, {'o': '<' + datum}


def ns_truth(attr, datum, other=None):
    return None, {'o': Node(**{attr: 'yes' if datum == D1 else ''})}


def ns_tree(attr, datum, other=None):
    kid1 = Node(tpId='k1', tpURL='u1', label='L1',
                kids=[Node(tpId='g1', tpURL='gu', label='G')])
    kid2 = Node(tpId='k2', tpURL='u2', label='L2')
    setattr(kid1, attr, datum)
    root = Node(tpId='root', tpURL='r', kids=[kid1, kid2], label='R')
    return None, {'root': root, 'URL': 'http://h/x', 'RESPONSE': Response()}


def ns_tree_sort(attr, datum, other=None):
    a, b = (1, 2) if datum == D1 else (2, 1)
    kid1 = Node(tpId='k1', tpURL='u1', label='L1')
    kid2 = Node(tpId='k2', tpURL='u2', label='L2')
    setattr(kid1, attr, a)
    setattr(kid2, attr, b)
    root = Node(tpId='root', tpURL='r', kids=[kid1, kid2], label='R')
    return None, {'root': root, 'URL': 'http://h/x', 'RESPONSE': Response()}


def ns_tree_branches(attr, datum, other=None):
    kid1 = Node(tpId='k1', tpURL='u1', label=datum)
    root = Node(tpId='root', tpURL='r', label='R')
    setattr(root, attr, lambda: [kid1])
    return None, {'root': root, 'URL': 'http://h/x', 'RESPONSE': Response()}


STATS = ('total', 'count', 'min', 'max', 'median', 'mean', 'variance',
         'variance-n', 'standard-deviation', 'standard-deviation-n')

CHANNELS = [
    ('client-name', '<dtml-var ATTR>', ns_client, ''),
    ('client-entity', '&dtml-ATTR;', ns_client, ''),
    ('client-if', '<dtml-if ATTR>yes<dtml-else>no</dtml-if>', ns_client, ''),
    ('client-unless', '<dtml-unless ATTR>no</dtml-unless>', ns_client_truth,
     'truth'),
    ('client-elif', '<dtml-if nope>x<dtml-elif ATTR>yes<dtml-else>no'
     '</dtml-if>', ns_client_truth, 'truth'),
    ('client-let', '<dtml-let z=ATTR><dtml-var z></dtml-let>', ns_client, ''),
    ('client-fullpath', '<dtml-var ATTR upper size=40 null="N">', ns_client,
     'upper'),
    ('client-entity-mod', '&dtml.lower.url_quote-ATTR;', ns_client, 'lower'),
    ('client-epfs', '<dtml-var namesub>', ns_client_sub, ''),
    ('client-sub-expr', '<dtml-var exprsub>', ns_client_sub, ''),
    ('client-return', '<dtml-return ATTR>', ns_client, ''),
    ('client-in', '<dtml-in ATTR><dtml-var sequence-item>,</dtml-in>',
     ns_client_seq, ''),
    ('client-in-batch', '<dtml-in ATTR size=1><dtml-var sequence-item>,'
     '</dtml-in>', ns_client_seq, ''),
    ('client-with', '<dtml-with ATTR><dtml-var inner></dtml-with>',
     ns_client_obj, ''),
    ('client-expr-ns', '<dtml-var "_[\'ATTR\']">', ns_client, ''),
    ('client-expr-getitem', '<dtml-var "_.getitem(\'ATTR\')">', ns_client,
     ''),
    ('client-expr-name', '<dtml-var "ATTR">', ns_client, 'exprname'),
    ('client-tuple-last', '<dtml-var ATTR>', ns_client_tuple, ''),
    ('client-tuple-first', '<dtml-var ATTR>', ns_client_tuple_first, ''),
    ('client-try', '<dtml-try><dtml-var ATTR><dtml-except>caught'
     '</dtml-try>', ns_client, ''),
    ('with', '<dtml-with o><dtml-var ATTR></dtml-with>', ns_obj, ''),
    ('with-only', '<dtml-with o only><dtml-var ATTR></dtml-with>', ns_obj,
     ''),
    ('with-expr', '<dtml-with "o"><dtml-var ATTR></dtml-with>', ns_obj, ''),
    ('with-record', '<dtml-with o><dtml-var ATTR></dtml-with>', ns_rec, ''),
    ('with-record-expr', '<dtml-with "o"><dtml-var ATTR></dtml-with>',
     ns_rec, ''),
    ('with-record-only', '<dtml-with o only><dtml-var ATTR></dtml-with>',
     ns_rec, ''),
    ('client-record', '<dtml-var ATTR>', ns_client_rec, ''),
    ('in-record', '<dtml-in seq><dtml-var ATTR>,</dtml-in>', ns_seq_rec, ''),
    ('let-record-expr', '<dtml-let v="o.ATTR"><dtml-var v></dtml-let>',
     ns_rec, 'expr'),
    ('withmaponly-expr', '<dtml-with m mapping only><dtml-var "o.ATTR">'
     '</dtml-with>', via_mapping(ns_obj), 'expr'),
    ('withmaponly-with', '<dtml-with m mapping only><dtml-with o>'
     '<dtml-var ATTR></dtml-with></dtml-with>', via_mapping(ns_obj), ''),
    ('withmaponly-in', '<dtml-with m mapping only><dtml-in seq>'
     '<dtml-var ATTR>,</dtml-in></dtml-with>', via_mapping(ns_seq), ''),
    ('withmaponly-fmt', '<dtml-with m mapping only><dtml-var o fmt=ATTR>'
     '</dtml-with>', via_mapping(ns_method), ''),
    ('withmaponly-item-in', '<dtml-with m mapping only><dtml-in seq>'
     '<dtml-var pubdata>,</dtml-in></dtml-with>',
     via_mapping(ns_seq_refused), 'items'),
    ('withmap-expr', '<dtml-with m mapping><dtml-var "o.ATTR"></dtml-with>',
     via_mapping(ns_obj), 'expr'),
    ('withmap-item-in', '<dtml-with m mapping><dtml-in seq>'
     '<dtml-var pubdata>,</dtml-in></dtml-with>',
     via_mapping(ns_seq_refused), 'items'),
    ('withnsonly-expr', '<dtml-with "_.namespace(p=o)" only>'
     '<dtml-var "p.ATTR"></dtml-with>', ns_obj, 'expr'),
    ('with-let', '<dtml-with o><dtml-let z=ATTR><dtml-var z></dtml-let>'
     '</dtml-with>', ns_obj, ''),
    ('with-only-expr', '<dtml-with o only><dtml-var "inner.ATTR">'
     '</dtml-with>', ns_nested, 'expr'),
    ('with-only-getattr', '<dtml-with o only><dtml-var '
     '"_.getattr(inner, \'ATTR\')"></dtml-with>', ns_nested, ''),
    ('with-expr-attr', '<dtml-with o><dtml-var "inner.ATTR"></dtml-with>',
     ns_nested, 'expr'),
    ('item-in', '<dtml-in seq><dtml-var pubdata>,</dtml-in>', ns_seq_refused,
     'items'),
    ('item-in-batch', '<dtml-in seq size=2><dtml-var pubdata>,</dtml-in>',
     ns_seq_refused, 'items'),
    ('item-in-skip', '<dtml-in seq skip_unauthorized><dtml-var pubdata>,'
     '</dtml-in>', ns_seq_refused, 'items'),
    ('item-in-batch-skip', '<dtml-in seq size=2 skip_unauthorized>'
     '<dtml-var pubdata>,</dtml-in>', ns_seq_refused, 'items'),
    ('item-in-seqitem', '<dtml-in seq no_push_item><dtml-var '
     '"_[\'sequence-item\'].pubdata">,</dtml-in>', ns_seq_refused, 'items'),
    ('item-in-nopush-seqitem-var', '<dtml-in seq no_push_item><dtml-var '
     'sequence-item>,</dtml-in>', ns_seq_refused_str, 'items'),
    ('item-in-nopush-prefix-item', '<dtml-in seq no_push_item prefix=p>'
     '<dtml-var p_item>,</dtml-in>', ns_seq_refused_str, 'items'),
    ('item-in-nopush-batch', '<dtml-in seq no_push_item size=2><dtml-var '
     'sequence-item>,</dtml-in>', ns_seq_refused_str, 'items'),
    ('item-in-nopush-skip', '<dtml-in seq no_push_item skip_unauthorized>'
     '<dtml-var sequence-item>,</dtml-in>', ns_seq_refused_str, 'items'),
    ('item-in-seqitem-var', '<dtml-in seq><dtml-var sequence-item>,'
     '</dtml-in>', ns_seq_refused_str, 'items'),
    ('item-expr', '<dtml-var "seq[0].pubdata">', ns_seq_refused, 'items'),
    ('item-tree', '<dtml-tree root><dtml-var label>,</dtml-tree>',
     ns_tree_refused, 'items'),
    ('item-tree-skip', '<dtml-tree root skip_unauthorized><dtml-var label>,'
     '</dtml-tree>', ns_tree_refused, 'items'),
    ('item-tree-skip-many', '<dtml-tree root skip_unauthorized>'
     '<dtml-var label>,</dtml-tree>', ns_tree_refused_many, 'items'),
    ('item-in-skip-many', '<dtml-in seq skip_unauthorized><dtml-var pubdata>,'
     '</dtml-in>', ns_seq_refused_many, 'items'),
    ('item-in-batch-skip-many', '<dtml-in seq size=4 skip_unauthorized>'
     '<dtml-var pubdata>,</dtml-in>', ns_seq_refused_many, 'items'),
    ('item-tree-skip-equal', '<dtml-tree root skip_unauthorized>'
     '<dtml-var label>,</dtml-tree>', ns_tree_refused_equal, 'items'),
    ('item-in-skip-equal', '<dtml-in seq skip_unauthorized><dtml-var pubdata>,'
     '</dtml-in>', ns_seq_refused_equal, 'items'),
    ('item-in-batch-skip-equal', '<dtml-in seq size=3 skip_unauthorized>'
     '<dtml-var pubdata>,</dtml-in>', ns_seq_refused_equal, 'items'),
] + [
    # an underscore name asked for with white space in front of it (a
    # quoted name attribute, a subscript of _, a no-break space that the tag
    # grammar does not take for a separator): still an underscore name
    ('wsname-%s-%d' % (where, i), pre + form.replace('WS', ws) + post,
     builder, 'private-only')
    for where, pre, post, builder in (
        ('client', '', '', ns_client),
        ('with', '<dtml-with o>', '</dtml-with>', ns_obj),
        ('in', '<dtml-in seq>', '</dtml-in>', ns_seq))
    for i, (form, ws) in enumerate(
        (f, w) for f in ('<dtml-var name="WSATTR">',
                         '<dtml-var name="WSATTR ">',
                         '<dtml-if name="WSATTR">y<dtml-else>n</dtml-if>',
                         '<dtml-var "_[\'WSATTR\']">',
                         '<dtml-var "_.getitem(\'WSATTR\', 1)">',
                         '<dtml-if "_.has_key(\'WSATTR\')">y</dtml-if>',
                         '<dtml-var WSATTR missing="-">')
        for w in (' ', '\t', '\xa0', '\u3000', '\x85')
        if not (f.startswith('<dtml-var WS') and w in (' ', '\t')))
] + [
    ('item-tree%s-%s' % (sk, kind), '<dtml-tree root%s><dtml-var label>,'
     '</dtml-tree>' % opt, other_container(ns_tree_refused_many, 'root',
                                           kind), 'items,mayfail')
    for sk, opt in (('', ''), ('-skip', ' skip_unauthorized'))
    for kind in ('tuple', 'view', 'bag', 'iter')
] + [
    ('item-in%s-%s' % (sk, kind), '<dtml-in seq%s><dtml-var pubdata>,'
     '</dtml-in>' % opt, other_container(ns_seq_refused_many, 'seq', kind),
     'items,mayfail')
    for sk, opt in (('', ''), ('-skip', ' skip_unauthorized'),
                    ('-batch', ' size=3'),
                    ('-batch-skip', ' size=3 skip_unauthorized'))
    for kind in ('tuple', 'view', 'bag', 'iter')
] + [
    ('presub-expr', '<dtml-var presub>',
     prerendered_sub(ns_obj, '[<dtml-var "o.ATTR">]'), 'expr'),
    ('presub-if-expr', '<dtml-var presub>',
     prerendered_sub(ns_truth, '[<dtml-if "o.ATTR">yes<dtml-else>no'
                     '</dtml-if>]'), 'expr'),
    ('presub-let-expr', '<dtml-var presub>',
     prerendered_sub(ns_obj, '[<dtml-let z="o.ATTR"><dtml-var z>'
                     '</dtml-let>]'), 'expr'),
    ('presub-in-expr', '<dtml-var presub>',
     prerendered_sub(ns_seq, '[<dtml-in "seq"><dtml-var "_[\'sequence-item\']'
                     '.ATTR">,</dtml-in>]'), 'expr'),
    ('presub-with', '<dtml-var presub>',
     prerendered_sub(ns_obj, '[<dtml-with o><dtml-var ATTR></dtml-with>]'),
     ''),
    ('presub-getattr', '<dtml-var presub>',
     prerendered_sub(ns_obj, '[<dtml-var "_.getattr(o, \'ATTR\')">]'), ''),
    ('laxsub-then-expr', '<dtml-var laxsub><dtml-var "o.ATTR">',
     after_lax_sub(ns_obj), 'expr'),
    ('laxsub-defaults-then-expr', '<dtml-var laxsub><dtml-var "o.ATTR">',
     after_lax_sub(ns_obj, True), 'expr'),
    ('laxsub-then-with', '<dtml-var laxsub><dtml-with o><dtml-var ATTR>'
     '</dtml-with>', after_lax_sub(ns_obj), ''),
    ('laxsub-then-in', '<dtml-var laxsub><dtml-in seq><dtml-var ATTR>,'
     '</dtml-in>', after_lax_sub(ns_seq), ''),
    ('laxsub-then-fmt', '<dtml-var laxsub><dtml-var o fmt=ATTR>',
     after_lax_sub(ns_method), ''),
    ('laxsub-then-item-in', '<dtml-var laxsub><dtml-in seq><dtml-var pubdata>,'
     '</dtml-in>', after_lax_sub(ns_seq_refused), 'items'),
    ('laxsub-in-loop-then-expr', '<dtml-in seq><dtml-var laxsub>'
     '<dtml-var "_[\'sequence-item\'].ATTR"></dtml-in>',
     after_lax_sub(ns_seq), 'expr'),
    ('sub-then-expr', '<dtml-var plainsub><dtml-var "o.ATTR">',
     after_plain_sub(ns_obj), 'expr'),
    ('subcall-then-expr', '<dtml-var "plainsub(None, _)"><dtml-var "o.ATTR">',
     after_plain_sub(ns_obj), 'expr'),
    ('sub-then-with', '<dtml-var plainsub><dtml-with o><dtml-var ATTR>'
     '</dtml-with>', after_plain_sub(ns_obj), ''),
    ('sub-then-in', '<dtml-var plainsub><dtml-in seq><dtml-var ATTR>,'
     '</dtml-in>', after_plain_sub(ns_seq), ''),
    ('sub-then-fmt', '<dtml-var plainsub><dtml-var o fmt=ATTR>',
     after_plain_sub(ns_method), ''),
    ('sub-then-item-in', '<dtml-var plainsub><dtml-in seq><dtml-var pubdata>,'
     '</dtml-in>', after_plain_sub(ns_seq_refused), 'items'),
    ('sub-in-loop-then-expr', '<dtml-in seq><dtml-var plainsub>'
     '<dtml-var "_[\'sequence-item\'].ATTR"></dtml-in>',
     after_plain_sub(ns_seq), 'expr'),
    ('expr-attr', '<dtml-var "o.ATTR">', ns_obj, 'expr'),
    ('expr-getattr', '<dtml-var "_.getattr(o, \'ATTR\')">', ns_obj, ''),
    ('expr-getattr-default', '<dtml-var "_.getattr(o, \'ATTR\', \'dflt\')">',
     ns_obj, ''),
    ('expr-hasattr', '<dtml-var "_.hasattr(o, \'ATTR\')">', ns_obj, ''),
    ('expr-ns-attr', '<dtml-var "_[\'o\'].ATTR">', ns_obj, 'expr'),
    ('expr-vars-attr', '<dtml-var "_vars[\'o\'].ATTR">', ns_obj, 'expr'),
    ('expr-item-attr', '<dtml-var "seq[0].ATTR">', ns_seq, 'expr'),
    ('expr-getitem-attr', '<dtml-var "_.getitem(\'o\', 0).ATTR">', ns_obj,
     'expr'),
    ('expr-in-call', '<dtml-call "o.ATTR">done', ns_obj, 'expr'),
    ('expr-in-if', '<dtml-if "o.ATTR">yes<dtml-else>no</dtml-if>', ns_truth,
     'expr truth'),
    ('expr-in-unless', '<dtml-unless "o.ATTR">u</dtml-unless>', ns_truth,
     'expr truth'),
    ('expr-in-let', '<dtml-let z="o.ATTR"><dtml-var z></dtml-let>', ns_obj,
     'expr'),
    ('expr-in-return', '<dtml-return "o.ATTR">', ns_obj, 'expr'),
    ('expr-in-with', '<dtml-with "_.namespace(v=o.ATTR)"><dtml-var v>'
     '</dtml-with>', ns_obj, 'expr'),
    ('expr-in-in', '<dtml-in "[o.ATTR]"><dtml-var sequence-item></dtml-in>',
     ns_obj, 'expr'),
    ('expr-in-raise', '<dtml-try><dtml-raise type="KeyError">'
     '<dtml-var "o.ATTR"></dtml-raise><dtml-except><dtml-var error_value>'
     '</dtml-try>', ns_obj, 'expr'),
    ('in-item-attr', '<dtml-in seq><dtml-var ATTR>,</dtml-in>', ns_seq, ''),
    ('in-item-attr-batch', '<dtml-in seq size=1><dtml-var ATTR>,</dtml-in>',
     ns_seq, ''),
    ('in-pair-attr', '<dtml-in seq><dtml-var ATTR>,</dtml-in>', ns_pairs, ''),
    ('in-item-if', '<dtml-in seq><dtml-if ATTR>y</dtml-if></dtml-in>',
     ns_seq, ''),
    ('in-seqitem-attr', '<dtml-in seq><dtml-var "_[\'sequence-item\'].ATTR">'
     '</dtml-in>', ns_seq, 'expr'),
    ('sequence-var', '<dtml-in seq><dtml-var sequence-var-ATTR>,</dtml-in>',
     ns_seq, ''),
    ('sequence-var-pairs', '<dtml-in seq><dtml-var sequence-var-ATTR>,'
     '</dtml-in>', ns_pairs, ''),
    ('sequence-var-batch', '<dtml-in seq size=1><dtml-var sequence-var-ATTR>'
     '</dtml-in>', ns_seq, ''),
    ('sequence-var-prefix', '<dtml-in seq prefix=p><dtml-var p_var_ATTR '
     'missing=""><dtml-var "_[\'sequence-var-ATTR\']"></dtml-in>', ns_seq, ''),
    ('first', '<dtml-in seq><dtml-var first-ATTR>,</dtml-in>', ns_seq,
     'pairwise'),
    ('last', '<dtml-in seq><dtml-var last-ATTR>,</dtml-in>', ns_seq,
     'pairwise'),
    ('next-var', '<dtml-in seq size=1 start=1><dtml-var '
     'next-sequence-start-var-ATTR missing="-"></dtml-in>', ns_seq, ''),
    ('previous-var', '<dtml-in seq size=1 start=2><dtml-var '
     'previous-sequence-start-var-ATTR missing="-"></dtml-in>', ns_seq, ''),
    ('next-end-var', '<dtml-in seq size=1 start=1><dtml-var '
     'next-sequence-end-var-ATTR missing="-"></dtml-in>', ns_seq, ''),
] + [
    ('stat-' + s, '<dtml-in seq><dtml-if sequence-end><dtml-var %s-ATTR>'
     '</dtml-if></dtml-in>' % s, ns_num, 'num') for s in STATS
] + [
    ('sort', '<dtml-in seq sort=ATTR><dtml-var ident>,</dtml-in>', ns_sort,
     'order'),
    ('sort-desc', '<dtml-in seq sort="ATTR/cmp/desc"><dtml-var ident>,'
     '</dtml-in>', ns_sort, 'order'),
    ('sort-two', '<dtml-in seq sort="ATTR,ident"><dtml-var ident>,</dtml-in>',
     ns_sort, 'order'),
    ('sort-two-second', '<dtml-in seq sort="pub2,ATTR"><dtml-var ident>,'
     '</dtml-in>', ns_sort, 'order'),
    ('sort-expr', '<dtml-in seq sort_expr="sk"><dtml-var ident>,</dtml-in>',
     ns_sort, 'order'),
    ('sort-batch', '<dtml-in seq sort=ATTR size=1><dtml-var ident>,</dtml-in>',
     ns_sort, 'order'),
    ('sort-pairs-none', '<dtml-in seq sort=ATTR reverse><dtml-var ident>,'
     '</dtml-in>', ns_sort, 'order'),
    ('fmt-method', '<dtml-var o fmt=ATTR>', ns_method, ''),
    ('fmt-method-null', '<dtml-var o fmt=ATTR null="n">', ns_method, ''),
    ('fmt-method-expr', '<dtml-var "o" fmt=ATTR>', ns_method, ''),
    # method formats of string values: the method is fetched through the
    # guard whatever kind of string it is (the guard is asked for "format")
    ('fmt-strmethod-tainted', '<dtml-var o fmt=format>', ns_tainted,
     'fixed:format'),
    ('fmt-strmethod-tainted-expr', '<dtml-var "o" fmt=format null="n">',
     ns_tainted, 'fixed:format'),
    ('fmt-strmethod-tainted-swapcase', '<dtml-var o fmt=swapcase size=99>',
     ns_tainted, 'fixed:swapcase swapcase'),
    ('tree-body', '<dtml-tree root><dtml-var ATTR missing="-"></dtml-tree>',
     ns_tree, ''),
    ('tree-branches', '<dtml-tree root branches=ATTR><dtml-var label>'
     '</dtml-tree>', ns_tree_branches, ''),
    ('tree-branches-expr', '<dtml-tree root branches_expr="ATTR()">'
     '<dtml-var label></dtml-tree>', ns_tree_branches, ''),
    ('tree-id', '<dtml-tree root id=ATTR><dtml-var label></dtml-tree>',
     ns_tree, 'markup'),
    ('tree-url', '<dtml-tree root url=ATTR><dtml-var label></dtml-tree>',
     ns_tree, 'markup'),
    ('tree-sort', '<dtml-tree root sort=ATTR><dtml-var label>,</dtml-tree>',
     ns_tree_sort, 'order'),
]

ATTRS = {'public': 'pubattr', 'refused': 'secattr', 'private': '_privattr',
         # the shortest underscore name
         'private1': '_'}


def site(cid):
    """the place in the code that performs the read of this channel (used
    in violation signatures, so that findings are identified per call
    site)"""
    if cid.startswith(('sequence-var', 'next-', 'previous-', 'first',
                       'last')):
        return 'DT_InSV.sequence_variables.value[%s]' % (
            'first/last' if cid in ('first', 'last') else
            'batch-var' if cid.startswith(('next-', 'previous-')) else
            'sequence-var')
    if cid.startswith('stat-'):
        return 'DT_InSV.sequence_variables.statistics'
    if cid.startswith('sort'):
        return 'DT_In.InClass.sort_sequence'
    if cid == 'tree-sort':
        return 'TreeTag.tpRenderTABLE[sort]'
    if cid in ('tree-id', 'tree-url'):
        return 'TreeTag.extract_id/try_call_attr'
    if cid.startswith('tree-branches'):
        return 'TreeTag.tpRenderTABLE[branches]'
    if cid.startswith('fmt-method') or cid in ('sub-then-fmt',
                                                'laxsub-then-fmt',
                                                'withmaponly-fmt'):
        return 'DT_Var.Var.render[fmt]'
    return cid


class Policy:
    def __init__(self):
        self.log = []
        self.deny = set()
        self.deny_items = False

    def validate(self, accessed, container, name, value, context,
                 roles=None, *a, **kw):
        from zExceptions import Unauthorized
        self.log.append(name)
        if name in self.deny:
            raise Unauthorized(name)
        if self.deny_items and name is None and \
                getattr(value, 'refuse_item', False):
            raise Unauthorized('item')
        return 1

    def checkPermission(self, permission, object, context):
        return 1


class User:
    def getId(self):
        return 'u'

    getUserName = getId

    def getRoles(self):
        return ()

    def allowed(self, *a, **kw):
        return 1

    def getRolesInContext(self, *a):
        return ()


_state = {}


def setup():
    if not _state:
        import TreeDisplay  # noqa: F401
        from AccessControl.SecurityManagement import newSecurityManager
        from AccessControl.SecurityManager import setSecurityPolicy
        from DocumentTemplate import HTML
        from DocumentTemplate.security import RestrictedDTML
        pol = Policy()
        setSecurityPolicy(pol)
        newSecurityManager(None, User())

        class R(RestrictedDTML, HTML):
            pass

        class R1(RestrictedDTML, HTML):
            # a class that supplies the attribute guard only
            guarded_getitem = None
        _state.update(policy=pol, R=R, R1=R1, HTML=HTML)
    return _state


def render(cls, src, client, ns):
    st = setup()
    st['policy'].log = []
    try:
        t = cls(src)
        r = t(client, **ns)
        out = ('ok', r if isinstance(r, str) else repr(r))
    except CaseTimeout:
        raise
    except Exception as e:
        out = ('exc', type(e).__name__)
    return out, list(st['policy'].log)


def cases(tier):
    for ch in CHANNELS:
        for kind in ATTRS:
            if kind == 'private1' and ('expr' in ch[0] or 'expr' in ch[3] or
                                       '"' in ch[1] and '_' in
                                       ch[1].split('ATTR')[0][-3:]):
                # in expressions a bare _ is the namespace object itself
                continue
            yield {'channel': ch[0], 'kind': kind}
            if 'items' not in ch[3] and (
                    'expr' in ch[3] or ch[0].startswith(('with', 'client-'))):
                # the same under a template class that supplies
                # guarded_getattr and leaves guarded_getitem unset
                yield {'channel': ch[0], 'kind': kind, 'guard': 'attr-only'}


def channel(cid):
    for ch in CHANNELS:
        if ch[0] == cid:
            return ch
    raise KeyError(cid)


def run(case):
    res = Res()
    st = setup()
    pol = st['policy']
    cid, src0, builder, flags = channel(case['channel'])
    kind = case['kind']
    attr = ATTRS[kind]
    R = st['R1'] if case.get('guard') == 'attr-only' else st['R']
    if 'private-only' in flags and not kind.startswith('private'):
        res.outcome = 'private-only:n/a'
        return res
    if 'fixed:' in flags:
        # the guarded name is a fixed (string) method name
        if kind.startswith('private'):
            res.outcome = 'fixed:n/a'
            return res
        attr = flags.split('fixed:')[1].split()[0]
    src = src0.replace('ATTR', attr)
    tag = '%s:%s' % (cid, kind)
    gv = ':attr-guard-only' if case.get('guard') else ''
    n = 0

    def both(cls, deny):
        nonlocal n
        pol.deny = set(deny)
        outs = []
        for datum in (D1, D2):
            client, ns = builder(attr, datum)
            if 'pairwise' in flags:
                # first-/last- compare neighbours: equal in run 1,
                # different in run 2
                client, ns = builder(attr, 'same',
                                     'same' if datum == D1 else 'other')
            outs.append(render(cls, src, client, ns))
            n += 1
        pol.deny = set()
        return outs

    def visible(out, datum):
        if out[0] != 'ok':
            return False
        if 'order' in flags or 'num' in flags or 'truth' in flags or \
                'pairwise' in flags:
            return None           # judged by comparing the two runs
        if 'swapcase' in flags:
            return datum.swapcase() in out[1]
        if 'upper' in flags:
            return datum.upper() in out[1]
        if 'lower' in flags:
            return datum.lower() in out[1]
        return datum in out[1]

    if 'items' in flags:
        # the policy refuses the *item*; its (public) data vary
        if kind != 'refused':
            res.outcome = 'items:n/a'
            return res
        pol.deny_items = True
        try:
            (o1, l1), (o2, l2) = both(R, [])
        finally:
            pol.deny_items = False
        if o1 != o2 or (o1[0] == 'ok' and D1 in o1[1]):
            res.violate('non-interference', 'leak:%s' % site(cid),
                        {'source': src, 'refused': 'the first item',
                         'run1': o1, 'run2': o2, 'policy_log': l1})
        (a1, _), (a2, _) = both(R, [])
        if 'mayfail' in flags and a1 == a2 and a1[0] == 'exc':
            # a collection the tag cannot subscript: nothing is shown to
            # anybody, which divulges nothing
            pass
        elif a1 == a2 or not (a1[0] == 'ok' and D1 in a1[1]):
            res.violate('harness', 'harness:item-channel-shows-nothing:%s'
                        % cid, {'source': src, 'allowed_run': a1})
        res.outcome = 'items:%s' % o1[0]
        res.nontrivial = True
        res.evals = n
        return res
    if kind == 'public':
        (o1, l1), (o2, l2) = both(R, [])
        # mediation: a visible datum must have been validated
        v1 = visible(o1, D1)
        differs = o1 != o2
        if (v1 or (v1 is None and differs)) and attr not in l1:
            res.violate('mediation', 'unmediated:%s%s' % (site(cid), gv),
                        {'source': src, 'output': o1, 'policy_log': l1})
        res.outcome = 'public:%s' % ('visible' if (v1 or differs)
                                     else 'not-visible')
    elif kind == 'refused':
        (o1, l1), (o2, l2) = both(R, [attr])
        if o1 != o2:
            res.violate('non-interference', 'leak:%s%s' % (site(cid), gv),
                        {'source': src, 'refused': attr, 'run1': o1,
                         'run2': o2, 'policy_log': l1})
        elif visible(o1, D1):
            res.violate('non-interference', 'leak:%s%s' % (site(cid), gv),
                        {'source': src, 'refused': attr, 'run1': o1,
                         'policy_log': l1})
        res.outcome = 'refused:%s' % o1[0]
        res.nontrivial = True
    else:
        for cls, how in ((R, 'guarded'), (st['HTML'], 'unguarded')):
            if how == 'unguarded' and ('expr' in flags or gv):
                # unrestricted Python expressions may name any attribute;
                # the underscore rule is about name lookup in client objects
                continue
            (o1, l1), (o2, l2) = both(cls, [])
            if o1 != o2 or visible(o1, D1):
                res.violate('privacy', 'private:%s:%s%s' % (site(cid), how, gv),
                            {'source': src, 'attribute': attr, 'run1': o1,
                             'run2': o2})
        res.outcome = 'private:%s' % o1[0]
        res.nontrivial = True
    res.evals = n
    return res


def finalize(tier, agg):
    if len(agg['outcomes']) < 4:
        raise HarnessFault('vacuous: too few outcomes %r' % (
            dict(agg['outcomes']),))
    plain = [c for c in CHANNELS if 'items' not in c[3] and
             'private-only' not in c[3]]
    if agg['outcomes'].get('public:visible', 0) < len(plain) * 0.8:
        raise HarnessFault('too many channels show nothing even for a '
                           'public attribute: %r' % dict(agg['outcomes']))
    # self-test: the guards really end in the recording policy
    st = setup()
    out, log = render(st['R'], '<dtml-var "o.pubattr">', None,
                      {'o': Node(pubattr='x')})
    if out != ('ok', 'x') or 'pubattr' not in log:
        raise HarnessFault('self-test: policy does not see guarded reads')
    st['policy'].deny = {'pubattr'}
    out, log = render(st['R'], '<dtml-var "o.pubattr">', None,
                      {'o': Node(pubattr='x')})
    st['policy'].deny = set()
    if out[0] != 'exc':
        raise HarnessFault('self-test: refusal is not enforced')
    return {'channels': [c[0] for c in CHANNELS]}
