"""C03 - html_quote / &dtml-name; output is exactly the HTML-escaped value.

Space: every code point as a one-character string (quick: the BMP, thorough:
all 0x110000 including lone surrogates, which are legal str values), every
string of length <= N over an alphabet dense in & < > " ' and multi-byte
characters, the same texts as bytes in the template's encoding; each through
every insertion form.  Oracle: html.escape(text, quote=True).
"""

import html
import itertools
import os
import re

from ..core import HarnessFault
from ..core import Res

ID = 'C03'
LEVEL = 'exploration'
MANIFEST = {
    'technique': 'exhaustive enumeration of the code-point space and of all '
                 'short strings over a quoting-dense alphabet, through every '
                 'insertion form; compared with html.escape',
    'text': 'Every code point (BMP in quick, all 0x110000 in thorough) and '
            'every string up to length 4/5 over & < > " \' a e-acute emoji '
            'blank newline, plus every special character at every position of multi-line / long / entity-bearing carriers, as str and as bytes in the template encoding, is inserted '
            'through 42 forms (incl. a second insertion after a clean / tainted one, and insertions inside block bodies and nested blocks) (entity, html_quote in three syntaxes, '
            'expression, full path with size/null/missing/etc, '
            'fmt=html-quote, plain) on the real code; each result must equal '
            'html.escape(value, quote=True) (plain forms: the value).  '
            '17 values that are not strings (numbers, containers, objects '
            'whose string form needs escaping) go through every quoting '
            'form.  Latin-1 bytes are also inserted into file-based templates and '
            'into template objects without an encoding attribute (both mean '
            'the old default Latin-1).  '
            'html_quote with another option is decided relationally: with '
            'fmt=F the result equals escape(render of fmt=F alone), with a '
            'modifier M it equals M applied to the escaped text (8 formats, '
            '9 modifiers, three spellings each).',
    'more': 'Also: long values (31..4097 characters to escape, one special character far into a long text) and multi-line values with every kind of line separator, as text and as bytes. Bytes pass through a template of the other encoding immediately before every bytes observation.',
    'note': 'Trusted: html.escape of the standard library as the definition '
            'of "standard HTML escaping (with quotes)". The list of forms is '
            'the bound on "every insertion form".',
}
RULE = ('every code point U+0000..U+FFFF (quick) / U+0000..U+10FFFF '
        '(thorough) as a one-character str, every string of length <= 4 '
        '(quick) / <= 5 (thorough) over the alphabet & < > " \' a e-acute '
        'emoji blank, and the encodable ones as bytes in the template '
        'encoding (utf-8, latin-1), each inserted through every form of the '
        'FORMS table (entity, html_quote in 3 syntaxes, html_quote with '
        'further options = full path, expression, fmt=html-quote, plain).  A '
        '(value, form) pair is non-trivial when the value contains one of '
        '& < > " \' or a non-ASCII character.')
ASSUMPTIONS = ['expected text is html.escape(value, quote=True) from the '
               'standard library',
               'templates are compiled once per worker and reused (state '
               'across renders is the subject of C17, not of this check)']

ALPHA = ['&', '<', '>', '"', "'", 'a', '\xe9', '\U0001F600', ' ', '\n']
# longer values: every special character at every position of carriers that
# have several lines (all line-end conventions), exceed typical buffer /
# fast-path sizes, or already contain entity-like text
CARRIERS = ['one\ntwo\r\nthree\rfour\x85five\u2028six\x0bseven\x0c\x1c8',
            'x' * 70, 'ab cd ' * 14, 'a&amp;b&lt;c&#39;d&quot;e&#x27;f',
            '\n\n', '\xe9\u20ac\U0001F600 z']

# (id, class, source, quoting?, path)
FORMS = [
    ('ent', 'HTML', '&dtml-x;', True),
    ('dtml-hq', 'HTML', '<dtml-var x html_quote>', True),
    ('ssi-hq', 'HTML', '<!--#var x html_quote-->', True),
    ('epfs-hq', 'String', '%(x html_quote)s', True),
    ('expr-hq', 'HTML', '<dtml-var "x" html_quote>', True),
    ('name-hq', 'HTML', '<dtml-var name=x html_quote>', True),
    ('ent-mod', 'HTML', '&dtml.html_quote-x;', True),
    ('full-size', 'HTML', '<dtml-var x html_quote size=99999>', True),
    ('full-null', 'HTML', '<dtml-var x html_quote null="N">', True),
    ('full-missing', 'HTML', '<dtml-var x html_quote missing="M">', True),
    ('full-etc', 'HTML', '<dtml-var x size=99999 etc="." html_quote>', True),
    ('epfs-full', 'String', '%(x html_quote size=99999)s', True),
    ('fmt-hq', 'HTML', '<dtml-var x fmt=html-quote>', True),
    ('fmt-hq-size', 'HTML', '<dtml-var x fmt=html-quote size=99999>', True),
    ('text-around', 'HTML', '[&dtml-x;|<dtml-var x html_quote>]', True),
    ('after-clean-ent', 'HTML', '&dtml-c;|&dtml-x;', True),
    ('after-clean-hq', 'HTML', '<dtml-var c html_quote>|<dtml-var x '
     'html_quote>', True),
    ('after-clean-mixed', 'HTML', '&dtml-c;<dtml-if c>|<dtml-var x '
     'html_quote></dtml-if>', True),
    ('after-tainted', 'HTML', '&dtml-t;|&dtml-x;', True),
    ('in-loop', 'HTML', '<dtml-in two>&dtml-c;|&dtml-x;,</dtml-in>', True),
    # insertions inside block bodies (sections are parsed on their own) and
    # inside nested blocks, fast path and full path
    ('if-full', 'HTML', '<dtml-if c><dtml-var x html_quote size=99999></dtml-if>',
     True),
    ('else-missing', 'HTML', '<dtml-if n>no<dtml-else><dtml-var x html_quote '
     'missing="M"></dtml-if>', True),
    ('if-fmt', 'HTML', '<dtml-if c><dtml-var x fmt=html-quote></dtml-if>',
     True),
    ('in-full', 'HTML', '<dtml-in two><dtml-var x html_quote size=99999>,'
     '</dtml-in>', True),
    ('nested-ent', 'HTML', '<dtml-if c><dtml-unless n>&dtml-x;</dtml-unless>'
     '</dtml-if>', True),
    ('nested-hq', 'HTML', '<dtml-let y=c><dtml-if y><dtml-var x html_quote>'
     '</dtml-if></dtml-let>', True),
    ('try-full', 'HTML', '<dtml-try><dtml-var x html_quote size=99999>'
     '<dtml-except>E</dtml-try>', True),
    ('with-fmt', 'HTML', '<dtml-with "_.namespace(y=1)"><dtml-var x '
     'fmt=html-quote size=99999></dtml-with>', True),
    # secondary bodies: the else of a loop over nothing, of a batch, of the
    # previous / next forms
    ('in-else-ent', 'HTML', '<dtml-in none>n<dtml-else>&dtml-x;|<dtml-var x '
     'html_quote></dtml-in>', True),
    ('inb-else-hq', 'HTML', '<dtml-in none size=2>n<dtml-else><dtml-var x '
     'html_quote>|&dtml-x;</dtml-in>', True),
    ('in-prev-else', 'HTML', '<dtml-in two size=2 previous>n<dtml-else>'
     '&dtml-x;|&dtml-x;</dtml-in>', True),
    ('in-next-else', 'HTML', '<dtml-in two size=2 next>n<dtml-else>'
     '&dtml-x;|&dtml-x;</dtml-in>', True),
    ('try-except-ent', 'HTML', '<dtml-try><dtml-var nowhere><dtml-except>'
     '&dtml-x;|&dtml-x;</dtml-try>', True),
    ('epfs-if-full', 'String', '%(if c)[%(x html_quote size=99999)s%(if c)]',
     True),
    # variables whose names are the one-letter codes of compiled blocks
    ('plain-named-h', 'HTML', '<dtml-var h>', False),
    ('plain-named-v', 'HTML', '<dtml-var v>|<dtml-var i>', False),
    ('plain-epfs-named-h', 'String', '%(h)s', False),
    ('hq-named-h', 'HTML', '<dtml-var h html_quote>|&dtml-v;', True),
    ('plain', 'HTML', '<dtml-var x>', False),
    ('plain-epfs', 'String', '%(x)s', False),
    ('plain-expr', 'HTML', '<dtml-var "x">', False),
    ('plain-full', 'HTML', '<dtml-var x size=99999>', False),
]
FORM_BY_ID = {f[0]: f for f in FORMS}

EXPECT = {'text-around': '[%s|%s]', 'after-clean-ent': 'word|%s',
          'after-clean-hq': 'word|%s', 'after-clean-mixed': 'word|%s',
          'after-tainted': '&lt;t&gt;|%s', 'in-loop': 'word|%s,word|%s,',
          'in-full': '%s,%s,', 'hq-named-h': '%s|%s',
          'in-else-ent': '%s|%s', 'inb-else-hq': '%s|%s',
          'in-prev-else': '%s|%s', 'in-next-else': '%s|%s',
          'try-except-ent': '%s|%s'}


def expected(form, value):
    _, _cls, src, quoting = FORM_BY_ID[form][:4]
    if 'null=' in src and not value:
        return 'N'       # null= replaces an empty value (C15)
    if not quoting:
        return value + '|' + value if form == 'plain-named-v' else value
    esc = html.escape(value, True)
    f = EXPECT.get(form, '%s')
    return f % ((esc,) * f.count('%s'))


CHUNK = 2048
CASE_CPU_SECONDS = 60.0
CASE_CPU_SECONDS_QUICK = 50.0
_tcache = {}


_tmpdir = []


def _source_file(form, src):
    """a file holding the source, for the file-based template classes"""
    if not _tmpdir:
        import atexit
        import shutil
        import tempfile
        d = tempfile.mkdtemp(prefix='dtmc-c03.')
        atexit.register(shutil.rmtree, d, True)
        _tmpdir.append(d)
    path = os.path.join(_tmpdir[0], form + '.dtml')
    with open(path, 'w') as f:
        f.write(src)
    return path


def template(form, encoding=None, pre=False, variant='new'):
    """variant 'new': created with (or defaulting) an encoding; 'file': a
    file-based template, which has no encoding of its own and means the old
    default Latin-1; 'legacy': an object created before templates had an
    encoding (the attribute is absent), Latin-1 as well"""
    key = (form, encoding, pre, variant)
    t = _tcache.get(key)
    if t is None:
        import DocumentTemplate
        _, cls, src, _q = FORM_BY_ID[form]
        if variant == 'file':
            from DocumentTemplate.DT_String import File
            cls = File if cls == 'String' else DocumentTemplate.HTMLFile
            t = cls(_source_file(form, src))
        else:
            cls = getattr(DocumentTemplate, cls)
            t = cls(src, encoding=encoding) if encoding else cls(src)
            if variant == 'legacy':
                del t.__dict__['encoding']
        if pre:
            # this compiled template has inserted a tainted value before
            from AccessControl.tainted import TaintedString
            p = TaintedString('<pre&>')
            t(x=p, c='word', two=[1, 2], t=tainted(), n=0, h=p, v=p, i=p,
              none=[])
        _tcache[key] = t
    return t


# html_quote together with another option: the option either formats the
# value before it is quoted (fmt=) or transforms the quoted text afterwards
# (modifiers) - both are checked relationally against the option alone
REL_FMT = ['multi-line', 'upper', 'lower', 'strip', '[%s]', 'structured-text',
           'url-quote', 'collection-length']
REL_MOD = ['url_quote', 'url_quote_plus', 'newline_to_br', 'lower', 'upper',
           'capitalize', 'spacify', 'sql_quote', 'thousands_commas']


def rel_template(src):
    t = _tcache.get(src)
    if t is None:
        from DocumentTemplate import HTML
        t = _tcache[src] = HTML(src)
    return t


def rel_render(src, **kw):
    try:
        return rel_template(src)(**kw)
    except Exception as e:
        return 'raised %s' % type(e).__name__


def run_rel(res, case):
    n = nt = 0
    for value in values(case):
        if not value:
            continue
        esc = html.escape(value, True)
        nv = nontrivial_value(value)
        for f in REL_FMT:
            alone = rel_render('<dtml-var x fmt="%s">' % f, x=value)
            if alone.startswith('raised '):
                continue
            for src in ('<dtml-var x fmt="%s" html_quote>' % f,
                        '<dtml-var x html_quote fmt="%s">' % f,
                        '<dtml-var "x" fmt="%s" html_quote null="N">' % f):
                got = rel_render(src, x=value)
                n += 1
                nt += nv
                if got != html.escape(alone, True):
                    res.violate('escape', 'escape:with-fmt=%s' % f,
                                {'source': src, 'value': value, 'got': got,
                                 'expected': html.escape(alone, True)},
                                {'kind': 'rel-one', 'value': value})
                    break
        for m in REL_MOD:
            want = rel_render('<dtml-var y %s>' % m, y=esc)
            for src in ('<dtml-var x html_quote %s>' % m,
                        '<dtml-var x %s html_quote>' % m,
                        '&dtml.html_quote.%s-x;' % m):
                got = rel_render(src, x=value)
                n += 1
                nt += nv
                if got != want:
                    res.violate('escape', 'escape:with-modifier=%s' % m,
                                {'source': src, 'value': value, 'got': got,
                                 'expected': want},
                                {'kind': 'rel-one', 'value': value})
                    break
    res.evals = n
    res.nt_count = nt
    res.outcome = 'rel'
    res.sample = {'law': 'x fmt=F html_quote == escape(x fmt=F); x '
                         'html_quote M == (escape(x)) M'}
    return res


class Texty:
    """an object whose string form needs escaping"""

    def __init__(self, text):
        self.text = text

    def __str__(self):
        return self.text

    def __repr__(self):
        return 'Texty(%r)' % self.text


def objects():
    """values that are not strings: what is escaped is their string form"""
    return [7, -3, 2.5, True, ['a<'], ["it's"], ('x&y', '"'), {'k': '<v>'},
            Texty('o<&>"\' \xe9'), Texty('plain'), ValueError('<e>'),
            {'<s>'}, 10 ** 20, 1e300, complex(1, 2), range(3),
            [Texty('in<list')]]


def cases(tier):
    yield {'kind': 'objects'}
    for n in range(0, 4 if tier == 'quick' else 5):
        if n < 2:
            yield {'kind': 'rel', 'n': n, 'pre': []}
        else:
            for a, b in itertools.product(range(len(ALPHA)), repeat=2):
                yield {'kind': 'rel', 'n': n, 'pre': [a, b]}
    for ci in range(len(CARRIERS)):
        yield {'kind': 'rel-carrier', 'c': ci}
    top = 0x10000 if tier == 'quick' else 0x110000
    for lo in range(0, top, CHUNK):
        yield {'kind': 'cp', 'lo': lo, 'hi': min(top, lo + CHUNK)}
    maxlen = 4 if tier == 'quick' else 5
    # strings: one case per (length, first two symbols)
    for n in range(0, maxlen + 1):
        if n < 2:
            yield {'kind': 'str', 'n': n, 'pre': []}
        else:
            for a, b in itertools.product(range(len(ALPHA)), repeat=2):
                yield {'kind': 'str', 'n': n, 'pre': [a, b]}
    yield {'kind': 'long'}
    yield {'kind': 'long', 'enc': 'utf-8'}
    yield {'kind': 'long', 'enc': 'latin-1'}
    for ci in range(len(CARRIERS)):
        yield {'kind': 'carrier', 'c': ci}
        for enc in ('utf-8', 'latin-1'):
            yield {'kind': 'carrier', 'c': ci, 'enc': enc}
    for enc in ('utf-8', 'latin-1'):
        for lo in range(0, 0x10000 if tier == 'quick' else 0x110000,
                        CHUNK * 4):
            yield {'kind': 'bytes-cp', 'enc': enc, 'lo': lo,
                   'hi': lo + CHUNK * 4}
        for n in range(0, maxlen):
            if n < 2:
                yield {'kind': 'bytes-str', 'enc': enc, 'n': n, 'pre': []}
            else:
                for a, b in itertools.product(range(len(ALPHA)), repeat=2):
                    yield {'kind': 'bytes-str', 'enc': enc, 'n': n,
                           'pre': [a, b]}


def values(case):
    k = case['kind']
    if 'only' in case:
        yield case['only']
        return
    if k == 'long':
        # scale: many characters to escape, one of them far into a long
        # text, several lines (every kind of line separator)
        for ch in '&<>"\'':
            for n in (31, 32, 33, 34, 63, 64, 65, 100, 257, 1000, 4097):
                yield ch * n
        mixed = '&<>"\'a \xe9'
        for n in (5, 6, 7, 10, 40, 150):
            yield mixed * n
        for L in (33, 65, 100, 1000):
            for p in (0, 1, 31, 32, 33, 63, 64, 65, L - 2, L - 1):
                if p < L:
                    for ch in '&<\'':
                        yield 'x' * p + ch + 'x' * (L - p - 1)
        for sep in ('\n', '\r\n', '\r', '\x0b', '\x0c', '\x1c', '\x85',
                    '\u2028', '\u2029'):
            yield 'first line' + sep + '<b> & "q"'
            yield sep + '&'
            yield 'a' + sep + "'" + sep + '<'
            yield '<' + sep + 'plain'
    elif k in ('cp', 'bytes-cp'):
        for cp in range(case['lo'], case['hi']):
            yield chr(cp)
    elif k in ('carrier', 'rel-carrier'):
        c = CARRIERS[case['c']]
        yield c
        for ch in '&<>"\'':
            for i in range(len(c) + 1):
                yield c[:i] + ch + c[i:]
            yield ch + c + ch
    else:
        pre = ''.join(ALPHA[i] for i in case['pre'])
        for rest in itertools.product(ALPHA, repeat=case['n'] - len(pre)):
            yield pre + ''.join(rest)


def nontrivial_value(s):
    return any(c in '&<>"\'' or ord(c) > 127 for c in s)


def judge(res, case, form, value, got, expected, enc=None, variant='new'):
    if got == expected:
        return
    if isinstance(got, BaseException):
        sig = 'exc:%s:%s' % (type(got).__name__, form)
        detail = {'exception': repr(got)}
    else:
        # name the character class that went wrong
        if not isinstance(got, str):
            why = 'type-%s' % type(got).__name__
        elif html.unescape(got) == html.unescape(expected):
            rest = re.sub(r'&(amp|lt|gt|quot|#x27|#39);', '', got)
            raw = [c for c in '&<>"\'' if c in rest]
            why = 'raw-%s' % ''.join(raw) if raw else 'spelling'
        elif enc and any(ord(c) > 127 for c in value):
            why = 'decoding'
        else:
            why = 'text'
        sig = 'escape:%s:%s%s%s' % (why, form, (':' + enc) if enc else '',
                                    '' if variant == 'new' else '/' + variant)
        detail = {'got': got, 'expected': expected}
    base = form.split('@')[0]
    detail.update({'value': value, 'form': form, 'encoding': enc,
                   'source': FORM_BY_ID[base][2]})
    res.violate('escape' if FORM_BY_ID[base][3] else 'plain', sig, detail,
                {'kind': 'one', 'form': form, 'value': value, 'enc': enc,
                 'variant': variant})


_tainted = []


def tainted():
    if not _tainted:
        from AccessControl.tainted import TaintedString
        _tainted.append(TaintedString('<t>'))
    return _tainted[0]


def render(form, value, enc=None, pre=False, variant='new'):
    t = template(form, None if variant != 'new' else enc, pre, variant)
    try:
        return t(x=value, c='word', two=[1, 2], t=tainted(), n=0, h=value,
                 v=value, i=value, none=[])
    except Exception as e:       # CaseTimeout is a BaseException
        return e


def run(case):
    res = Res()
    if case['kind'] in ('rel', 'rel-carrier'):
        return run_rel(res, case)
    if case['kind'] == 'rel-one':
        return run_rel(res, {'kind': 'cp', 'lo': 0, 'hi': 0,
                             'only': case['value']})
    if case['kind'] == 'objects':
        n = 0
        for v in objects():
            text = str(v)
            for form, _cls, _src, quoting in FORMS:
                if not quoting:
                    continue
                for pre in (False, True):
                    got = render(form, v, None, pre)
                    n += 1
                    exp = expected(form, text)
                    if got != exp:
                        judge(res, case, form + ('@after-tainted-render'
                                                 if pre else ''),
                              text, got, exp, 'object:' + type(v).__name__)
        res.evals = res.nt_count = n
        res.outcome = 'objects'
        return res
    if case['kind'] == 'one':
        # replay form
        value, enc, form = case['value'], case.get('enc'), case['form']
        pre = form.endswith('@after-tainted-render')
        form = form.split('@')[0]
        exp = expected(form, value)
        variant = case.get('variant', 'new')
        v = value.encode(enc) if enc else value
        judge(res, case, case['form'], value,
              render(form, v, enc, pre, variant), exp, enc, variant)
        res.nontrivial = True
        return res
    nt = 0
    n = 0
    enc = case.get('enc')
    for value in values(case):
        if enc:
            try:
                raw = value.encode(enc)
            except UnicodeEncodeError:
                continue
        else:
            raw = value
        nv = nontrivial_value(value)
        esc = html.escape(value, True)
        for form, _cls, _src, quoting in FORMS:
            if enc and not quoting:
                # a plain single-piece bytes insertion legitimately returns
                # the bytes object itself (C19 covers multi-piece joins)
                continue
            if enc and quoting:
                # the same bytes first pass through a template of the
                # other encoding (where they mean another text, or nothing)
                try:
                    render(form, raw, 'latin-1' if enc != 'latin-1'
                           else 'utf-8')
                except Exception:
                    pass
            got = render(form, raw, enc)
            n += 1
            exp = expected(form, value)
            judge(res, case, form, value, got, exp, enc)
            if enc == 'latin-1' and got == exp:
                # templates without an encoding of their own
                for variant in ('file', 'legacy'):
                    n += 1
                    judge(res, case, form, value,
                          render(form, raw, enc, False, variant), exp, enc,
                          variant)
            if quoting and case['kind'] in ('str', 'carrier', 'long'):
                # the same on a template object that has rendered a
                # tainted value before
                got2 = render(form, raw, enc, pre=True)
                n += 1
                if got2 != exp and got == exp:
                    judge(res, case, form + '@after-tainted-render', value,
                          got2, exp, enc)
            if nv:
                nt += 1
                if res.sample is None:
                    res.sample = {'form': form, 'value': value,
                                  'encoding': enc,
                                  'source': FORM_BY_ID[form][2],
                                  'rendered': got if isinstance(got, str)
                                  else repr(got)}
    res.evals = n
    res.nt_count = nt
    res.outcome = case['kind'] + (':' + enc if enc else '')
    return res


def finalize(tier, agg):
    if agg['nontrivial'] < 1000:
        raise HarnessFault('vacuous: too few non-trivial (value, form) pairs')
    # oracle self-test: an unescaped quote must be flagged
    r = Res()
    judge(r, {}, 'ent', "a'b", "a'b", html.escape("a'b", True))
    if not r.violations or 'raw' not in r.violations[0]['sig']:
        raise HarnessFault('self-test: raw quote not detected')
    return {'forms': [f[2] for f in FORMS]}
