"""C10 - dtml-in visits each element once, in order, with correct sequence
variables.

Space: all sequences of length 0..N whose elements carry x in {1, 2} (every
run pattern), as objects, mappings, (key, object) pairs, strings and ints;
held in a list, tuple, iterator, generator and a lazy __getitem__/__len__
sequence; x every valid combination of mapping / no_push_item / prefix /
sort / reverse x {unbatched, size=2 start=2}.  The body prints every
documented variable; the expected row is computed from the position.
"""

import itertools

from ..core import HarnessFault
from ..core import Res

ID = 'C10'
LEVEL = 'exploration'
MANIFEST = {
    'technique': 'exhaustive enumeration of all short sequences (every run '
                 'pattern) x element kinds x containers x option subsets; '
                 'every sequence variable compared with a positional '
                 'reference table',
    'text': 'Every sequence of length 0..4 (quick) / 0..6 (thorough) over '
            'x in {1,2}, as objects / mappings / (key,object) pairs / '
            'strings / ints / objects mixed with pairs / objects mixed '
            'with strings, in a list, tuple, iterator, generator and lazy '
            'sequence, with every valid subset of {mapping, no_push_item, '
            'prefix (p and my_row), sort=x, reverse} and without / with each '
            'of four batch windows, is '
            'rendered on the real code with a body printing all documented '
            'sequence variables (sequence-* and p_* spellings), the element '
            'attribute, and a probe after the end tag; every printed value '
            'must equal the value computed from the element position; '
            'every configuration is rendered once more with a body that '
            'raises on the first element under an enclosing try (nothing '
            'stays bound); '
            're-iterable containers are rendered a second time (same '
            'result), and all nestings of two loops of length 0..3 check '
            'that the inner loop shadows the outer variables only until '
            'its end tag.  Plain dictionaries iterated without `mapping` '
            'are client objects (their keys are not names); runs of '
            'different false values (0, None, empty string) are '
            'boundaries for first-x / last-x.',
    'more': 'Also: element objects that are false; sequences of 26..3999 elements (roman numerals, letters, flags as functions of the position); suppliers that fail after k elements / when asked for their length, under an enclosing try.',
    'note': 'Trusted: the positional reference table in this driver (own '
            'roman-numeral routine).  first-x/last-x are asserted for '
            'unbatched runs only; sequence-key for 2-tuples only.',
}
RULE = ('all x-patterns of length 0..4 (quick) / 0..6 (thorough) x 7 element '
        'kinds x 5 containers x valid option subsets x 2 prefix names x '
        '{unbatched, 4 batch windows}; nested loops 0..3 x 0..3.  A run is non-trivial when the sequence has at least two '
        'elements.')
ASSUMPTIONS = ['booleans (even/odd/start/end/first-x/last-x) are compared by '
               'truth value through dtml-if',
               'the window of a batched run is taken from the start+size '
               'law of C11']
CASE_CPU_SECONDS = 120.0
CASE_CPU_SECONDS_QUICK = 10.0

# batch index -> (attributes, start, size, orphan); index 0 is unbatched
BATCHES = ((None, 0, 0, 0),
           ('size=2 start=2', 2, 2, 0),
           ('size=3 orphan=2', 1, 3, 2),
           ('start=3', 3, 10, 0),
           ('size=2 start=2 overlap=1 orphan=0', 2, 2, 0))


def window(batch, n):
    """0-based first/last displayed index (start+size law of C11)"""
    if not batch or n == 0:
        return 0, n - 1
    _a, start, size, orphan = BATCHES[batch]
    s = min(start, n)
    e = s + size - 1
    if e > n or n - e < orphan:
        e = n
    return s - 1, e - 1


KINDS = ('obj', 'map', 'pair', 'str', 'int', 'mix', 'mixstr', 'dict',
         'pairdict', 'pairmap')
PREFIXES = ('p', 'my_row')
CONTAINERS = ('list', 'tuple', 'iter', 'gen', 'lazy')
FIXED = ('item', 'key', 'index', 'number', 'letter', 'Letter', 'roman',
         'Roman', 'even', 'odd', 'start', 'end', 'length')
BOOLS = ('even', 'odd', 'start', 'end')


def to_roman(n):
    out = ''
    for v, s in ((1000, 'M'), (900, 'CM'), (500, 'D'), (400, 'CD'),
                 (100, 'C'), (90, 'XC'), (50, 'L'), (40, 'XL'), (10, 'X'),
                 (9, 'IX'), (5, 'V'), (4, 'IV'), (1, 'I')):
        while n >= v:
            out += s
            n -= v
    return out


class Elem:
    def __init__(self, ident, x):
        self.id = ident
        self.x = x

    def __str__(self):
        return 'O%d' % self.id


class FalsyElem(Elem):
    """an element object that is false (an empty folder, a record whose
    length is 0): an object with attributes like any other"""

    def __len__(self):
        return 0


class Lazy:
    def __init__(self, items):
        self._items = items

    def __getitem__(self, i):
        return self._items[i]

    def __len__(self):
        return len(self._items)


class SupplierError(Exception):
    pass


def failing_iter(items, k):
    for i, x in enumerate(items):
        if i == k:
            raise SupplierError('after %d' % k)
        yield x
    raise SupplierError('at the end')


class FailingLazy(Lazy):
    def __init__(self, items, k):
        Lazy.__init__(self, items)
        self._k = k

    def __getitem__(self, i):
        if i >= self._k:
            raise SupplierError('item %d' % i)
        return self._items[i]

    def __len__(self):
        raise SupplierError('len')


def elements(kind, xs, Elem=Elem):
    out = []
    for i, x in enumerate(xs):
        if kind == 'obj':
            out.append(Elem(i, x))
        elif kind == 'map':
            out.append({'id': i, 'x': x})
        elif kind == 'pair':
            out.append(('k%d' % i, Elem(i, x)))
        elif kind == 'dict':
            # plain dictionaries iterated *without* `mapping`: client
            # objects like any other, their keys are not names
            out.append({'id': i, 'x': x})
        elif kind == 'pairmap':
            # (key, mapping) pairs iterated with `mapping` (dict.items() of
            # a dictionary of records)
            out.append(('k%d' % i, {'id': i, 'x': x}))
        elif kind == 'pairdict':
            out.append(('k%d' % i, {'id': i, 'x': x}))
        elif kind == 'str':
            out.append('s%d' % i)
        elif kind == 'mix':
            # plain objects and (key, object) pairs in one sequence
            out.append(Elem(i, x) if x == 1 else ('k%d' % i, Elem(i, x)))
        elif kind == 'mixstr':
            # objects (pushed) and bare strings (never pushed)
            out.append(Elem(i, x) if x == 1 else 's%d' % i)
        else:
            out.append(100 + i)
    return out


def container(kind, items):
    if kind == 'list':
        return list(items)
    if kind == 'tuple':
        return tuple(items)
    if kind == 'iter':
        return iter(list(items))
    if kind == 'gen':
        return (x for x in list(items))
    return Lazy(list(items))


def option_sets(kind):
    opts = ['no_push_item', 'prefix', 'reverse']
    if kind in ('obj', 'map', 'pair', 'pairmap'):
        opts.append('sort')
    if kind in ('mix', 'mixstr'):
        opts.remove('reverse')
    for k in range(len(opts) + 1):
        for sub in itertools.combinations(opts, k):
            yield list(sub)


def cases(tier):
    maxn = 4 if tier == 'quick' else 6
    for kind in KINDS:
        for cont in CONTAINERS:
            for opts in option_sets(kind):
                for batch in range(len(BATCHES)):
                    for n in range(0, maxn + 1):
                        for pn in (PREFIXES if 'prefix' in opts else ('p',)):
                            yield {'kind': kind, 'cont': cont, 'opts': opts,
                                   'batch': batch, 'n': n, 'pname': pn}
    # element objects that are false themselves
    for kind in ('obj', 'pair', 'mix', 'mixstr'):
        for cont in ('list', 'iter'):
            for opts in option_sets(kind):
                for batch in range(len(BATCHES)):
                    for n in range(1, maxn + 1):
                        yield {'kind': kind, 'cont': cont, 'opts': opts,
                               'batch': batch, 'n': n, 'pname': 'p',
                               'felem': 1}
    # runs of *different false values* of x (0, None, '') next to each
    # other: first-x / last-x see every boundary
    for kind in ('obj', 'map', 'pair'):
        for cont in ('list', 'iter'):
            for opts in ([], ['prefix'], ['reverse'], ['no_push_item']):
                for n in range(2, maxn + 1):
                    yield {'kind': kind, 'cont': cont, 'opts': opts,
                           'batch': 0, 'n': n, 'pname': 'p', 'dom': 'falsy'}
    for attr in ATTR_NAMES:
        for mapping in (0, 1):
            yield {'attr': attr, 'mapping': mapping}
    for n in (26, 27, 39, 40, 41, 50, 90, 100, 400, 1000, 3999):
        for opt, pre in (('', 'sequence-'), (' prefix=p', 'p_'),
                         (' reverse', 'sequence-'),
                         (' size=%d start=1' % n, 'sequence-')):
            for cont in ('list', 'iter'):
                yield {'long': n, 'opt': opt, 'pre': pre, 'cont': cont}
    for cont in CONTAINERS:
        for na in range(0, 4):
            for nb in range(0, 4):
                yield {'nested': 1, 'cont': cont, 'na': na, 'nb': nb}


def body_source(kind, opts, batch, pname='p'):
    has_x = kind in ('obj', 'map', 'pair', 'mix', 'pairmap')
    cells = []

    def var(name):
        cells.append('<dtml-var %s>' % name)

    def boolean(name):
        cells.append('<dtml-if %s>1<dtml-else>0</dtml-if>' % name)

    for pre in (['sequence-'] + ([pname + '_'] if 'prefix' in opts else [])):
        for f in FIXED:
            if f == 'key' and kind not in ('pair', 'pairdict', 'pairmap'):
                continue
            (boolean if f in BOOLS else var)(pre + f)
    if has_x:
        var('sequence-var-x')
        if not batch:
            boolean('first-x')
            boolean('last-x')
    cells.append('<dtml-var x missing="-">')
    cells.append('<dtml-var id missing="-">')
    return '[' + ';'.join(cells) + ']'


_t = {}


def _boom():
    raise RuntimeError('boom')


def template(kind, opts, batch, pname='p', abort=False):
    key = (kind, tuple(opts), batch, pname, abort)
    t = _t.get(key)
    if t is None and abort:
        # the body raises on the first displayed element; an enclosing try
        # handles it: nothing the loop bound may be visible afterwards
        from DocumentTemplate import HTML
        attrs = []
        if kind in ('map', 'pairmap'):
            attrs.append('mapping')
        for o in opts:
            attrs.append({'prefix': 'prefix=' + pname,
                          'sort': 'sort=x'}.get(o, o))
        if batch:
            attrs.append(BATCHES[batch][0])
        src = ('<dtml-try><<dtml-in seq %s><dtml-var sequence-index>'
               '<dtml-var boom><dtml-else>EMPTY</dtml-in>><dtml-except>'
               'caught</dtml-try>{<dtml-var x missing="-">,<dtml-var '
               'sequence-index missing="-">,<dtml-var %s_index missing="-">,'
               '<dtml-var sequence-item missing="-">}'
               '(<dtml-var sequence-start missing="-">,<dtml-var '
               'sequence-end missing="-">,<dtml-var next-sequence '
               'missing="-">,<dtml-var %s_start missing="-">,<dtml-var '
               'sequence-length missing="-">)'
               % (' '.join(attrs), pname, pname))
        t = _t[key] = HTML(src)
    if t is None:
        from DocumentTemplate import HTML
        attrs = []
        if kind in ('map', 'pairmap'):
            attrs.append('mapping')
        for o in opts:
            attrs.append({'prefix': 'prefix=' + pname,
                          'sort': 'sort=x'}.get(o, o))
        if batch:
            attrs.append(BATCHES[batch][0])
        src = ('<<dtml-in seq %s>%s<dtml-else>EMPTY</dtml-in>>'
               '{<dtml-var x missing="-">,<dtml-var sequence-index '
               'missing="-">,<dtml-var %s_index missing="-">,'
               '<dtml-var sequence-item missing="-">}'
               % (' '.join(attrs), body_source(kind, opts, batch, pname),
                  pname))
        t = _t[key] = HTML(src)
    return t


def expected(kind, opts, batch, xs):
    items = elements(kind, xs)
    n = len(items)
    tail = '{-,-,-,-}'
    if n == 0:
        return '<EMPTY>' + tail
    order = list(range(n))
    if 'sort' in opts:
        order.sort(key=lambda i: xs[i])
    if 'reverse' in opts:
        order.reverse()
    seq = [items[i] for i in order]
    sx = [xs[i] for i in order]
    first, last = window(batch, n)
    has_x = kind in ('obj', 'map', 'pair', 'mix', 'pairmap')
    rows = []
    for i in range(first, last + 1):
        it = seq[i]
        key = None
        if isinstance(it, tuple):
            key, it = it
        pushed = isinstance(it, (Elem, dict)) and 'no_push_item' not in opts
        fixed = {
            'item': str(it), 'key': key, 'index': str(i),
            'number': str(i + 1), 'letter': chr(97 + i),
            'Letter': chr(65 + i), 'roman': to_roman(i + 1).lower(),
            'Roman': to_roman(i + 1), 'even': '1' if i % 2 == 0 else '0',
            'odd': '1' if i % 2 else '0', 'start': '1' if i == first else '0',
            'end': '1' if i == last else '0', 'length': str(n)}
        cells = []
        for _pre in (['sequence-'] + (['p_'] if 'prefix' in opts else [])):
            for f in FIXED:
                if f == 'key' and kind not in ('pair', 'pairdict', 'pairmap'):
                    continue
                cells.append(fixed[f])
        if has_x:
            cells.append(str(sx[i]))
            if not batch:
                cells.append('1' if i == 0 or sx[i] != sx[i - 1] else '0')
                cells.append('1' if i == n - 1 or sx[i] != sx[i + 1] else '0')
        ident = order[i]
        if kind in ('dict', 'pairdict'):
            pushed = False      # keys are not attributes
        cells.append(str(sx[i]) if pushed else '-')
        cells.append(str(ident) if pushed else '-')
        rows.append('[' + ';'.join(cells) + ']')
    return '<' + ''.join(rows) + '>' + tail


def first_difference(got, exp, kind, opts, batch):
    """name the first variable whose value differs (for the signature)"""
    if not isinstance(got, str):
        return 'exception'
    if got.count('[') != exp.count('['):
        return 'row-count'
    names = []
    for pre in (['sequence-'] + (['p_'] if 'prefix' in opts else [])):
        for f in FIXED:
            if f == 'key' and kind not in ('pair', 'pairdict', 'pairmap'):
                continue
            names.append(pre + f)
    if kind in ('obj', 'map', 'pair', 'mix', 'pairmap'):
        names.append('sequence-var-x')
        if not batch:
            names += ['first-x', 'last-x']
    names += ['x-visible', 'id-visible']
    grows = got[1:got.rfind('>')].split(']')
    erows = exp[1:exp.rfind('>')].split(']')
    for gr, er in zip(grows, erows):
        gc, ec = gr.lstrip('[').split(';'), er.lstrip('[').split(';')
        for name, g, e in zip(names, gc, ec):
            if g != e:
                return name
    if got[got.rfind('>'):] != exp[exp.rfind('>'):]:
        return 'after-end-tag'
    return 'other'


def one(res, case, xs):
    kind, cont, opts, batch = (case['kind'], case['cont'], case['opts'],
                               case['batch'])
    ecls = FalsyElem if case.get('felem') else Elem
    seq = container(cont, elements(kind, xs, ecls))
    try:
        got = template(kind, opts, batch, case.get('pname', 'p'))(seq=seq)
    except Exception as e:
        got = e
    exp = expected(kind, opts, batch, xs)
    if got == exp and cont in ('list', 'tuple', 'lazy'):
        # the same container rendered a second time: same elements, same
        # order (a tag that consumed or reordered the caller's sequence
        # shows up here)
        try:
            again = template(kind, opts, batch, case.get('pname', 'p'))(seq=seq)
        except Exception as e:
            again = e
        if again != exp:
            res.violate('second-render',
                        'second-render:%s:%s%s' % (
                            kind, '+'.join(opts) or 'plain',
                            ':batch' if batch else ''),
                        {'xs': xs, 'container': cont, 'got': repr(again),
                         'expected': exp}, dict(case, xs=list(xs)))
    if got == exp and case.get('pname', 'p') == 'p':
        seq2 = container(cont, elements(kind, xs, ecls))
        try:
            ab = template(kind, opts, batch, 'p', True)(seq=seq2, boom=_boom)
        except Exception as e:
            ab = e
        want = ('caught' if xs else '<EMPTY>') + '{-,-,-,-}(-,-,-,-,-)'
        if ab != want:
            res.violate('aborted-loop', 'aborted:%s:%s%s' % (
                kind, '+'.join(opts) or 'plain', ':batch' if batch else ''),
                {'xs': xs, 'container': cont, 'got': repr(ab),
                 'expected': want}, dict(case, xs=list(xs)))
    if got == exp and case.get('pname', 'p') == 'p' and \
            cont in ('iter', 'gen', 'lazy'):
        # the supplier itself fails: after k elements (iterators) / when
        # asked for its length or an element (lazy sequence)
        for k in range(0, len(xs) + 1):
            items = elements(kind, xs, ecls)
            if cont == 'lazy':
                seq3 = FailingLazy(items, k)
            else:
                seq3 = failing_iter(items, k)
            try:
                ab = template(kind, opts, batch, 'p', True)(
                    seq=seq3, boom=lambda: '')
            except Exception as e:
                ab = e
            if not isinstance(ab, str) or not ab.endswith(
                    '{-,-,-,-}(-,-,-,-,-)'):
                res.violate('aborted-loop', 'failing-supplier:%s:%s%s' % (
                    kind, '+'.join(opts) or 'plain',
                    ':batch' if batch else ''),
                    {'xs': xs, 'container': cont, 'fails_after': k,
                     'got': repr(ab), 'expected': '...{-,-,-,-}(-,-,-,-,-)'},
                    dict(case, xs=list(xs)))
                break
    if got != exp:
        what = first_difference(got, exp, kind, opts, batch)
        res.violate('sequence-variables',
                    '%s:%s:%s%s' % (what, kind, '+'.join(opts) or 'plain',
                                    ':batch' if batch else ''),
                    {'xs': xs, 'container': cont, 'got': repr(got),
                     'expected': exp},
                    dict(case, xs=list(xs)))
    return got


NESTED_SRC = ('<dtml-in a prefix=o>(<dtml-var sequence-index>'
              '<dtml-var sequence-item>:<dtml-in b prefix=q>[<dtml-var '
              'sequence-index><dtml-var sequence-item><dtml-var o_index>'
              '<dtml-var o_item><dtml-var q_index><dtml-if sequence-start>S'
              '</dtml-if><dtml-if o_start>s</dtml-if><dtml-if sequence-end>E'
              '</dtml-if><dtml-if o_end>e</dtml-if>]<dtml-else>{<dtml-var '
              'sequence-index><dtml-var o_item>}</dtml-in>:<dtml-var '
              'sequence-index><dtml-var sequence-item><dtml-var q_index '
              'missing="-"><dtml-if sequence-end>E</dtml-if>)<dtml-else>'
              'NONE</dtml-in><dtml-var sequence-index missing="-">'
              '<dtml-var o_index missing="-"><dtml-var q_item missing="-">')


def run_nested(case):
    """an inner loop shadows the outer loop's variables only until its end
    tag; the prefixed outer variables stay readable inside it"""
    from DocumentTemplate import HTML
    res = Res(nontrivial=case['na'] >= 1 and case['nb'] >= 1)
    t = _t.get('nested')
    if t is None:
        t = _t['nested'] = HTML(NESTED_SRC)
    a = ['xyz'[i] for i in range(case['na'])]
    b = [7 + j for j in range(case['nb'])]
    rows = []
    for i, av in enumerate(a):
        inner = []
        for j, bv in enumerate(b):
            inner.append('[%d%d%d%s%d%s%s%s%s]' % (
                j, bv, i, av, j, 'S' if j == 0 else '',
                's' if i == 0 else '', 'E' if j == len(b) - 1 else '',
                'e' if i == len(a) - 1 else ''))
        if not b:
            inner.append('{%d%s}' % (i, av))
        rows.append('(%d%s:%s:%d%s-%s)' % (
            i, av, ''.join(inner), i, av, 'E' if i == len(a) - 1 else ''))
    exp = (''.join(rows) if a else 'NONE') + '---'
    try:
        got = t(a=container(case['cont'], a), b=b)
    except Exception as e:
        got = repr(e)
    if got != exp:
        res.violate('nested-loops', 'nested:%s' % (
            'exception' if not got.endswith('---') or '(' not in got + '('
            else 'value'), {'got': got, 'expected': exp}, case)
    res.outcome = 'nested:%s' % case['cont']
    return res


LONG_SRC = ('<dtml-in seq%s>[<dtml-var %sindex>,<dtml-var %snumber>,'
            '<dtml-var %sroman>,<dtml-var %sRoman>,<dtml-var %sletter>,'
            '<dtml-var %sLetter>,<dtml-var %sitem>,<dtml-if %seven>e'
            '</dtml-if><dtml-if %sodd>o</dtml-if><dtml-if %sstart>S'
            '</dtml-if><dtml-if %send>E</dtml-if>,<dtml-var %slength>]'
            '</dtml-in>')


def run_long(case):
    """scale: sequences far longer than the exhaustive domain -- the
    positional variables are functions of the position for every position
    (roman numerals with XL, XC, CD, ...; letters up to z)"""
    from DocumentTemplate import HTML
    res = Res(nontrivial=True)
    n, opt, pre = case['long'], case['opt'], case['pre']
    t = HTML(LONG_SRC % ((opt,) + (pre,) * 12))
    items = [1000 + i for i in range(n)]
    rows = []
    shown = list(range(n))
    if 'reverse' in opt:
        shown = shown[::-1]
    for pos, i in enumerate(shown):
        rows.append([pos, pos + 1, to_roman(pos + 1).lower(),
                     to_roman(pos + 1),
                     chr(ord('a') + pos) if pos < 26 else None,
                     chr(ord('A') + pos) if pos < 26 else None,
                     items[i], ('e' if pos % 2 == 0 else 'o') +
                     ('S' if pos == 0 else '') + ('E' if pos == n - 1 else ''),
                     n])
    try:
        got = t(seq=container(case['cont'], items))
    except Exception as e:
        got = repr(e)
    cells = [c.split(',') for c in got[1:-1].split('][')] if n and \
        got.startswith('[') else []
    bad = None
    if len(cells) != len(rows):
        bad = {'rows': len(cells), 'expected_rows': len(rows)}
    else:
        for r, c in zip(rows, cells):
            for k, (want, have) in enumerate(zip(r, c)):
                if want is not None and str(want) != have:
                    bad = {'position': r[1], 'column': k, 'got': have,
                           'expected': str(want)}
                    break
            if bad:
                break
    if bad:
        bad['got_text'] = got[:200]
        res.violate('long-sequence', 'long:%s' % (
            'rows' if 'rows' in bad else
            ('index', 'number', 'roman', 'Roman', 'letter', 'Letter', 'item',
             'flags', 'length')[bad['column']]), bad, case)
    res.evals = n
    res.outcome = 'long'
    return res


ATTR_NAMES = ('number', 'key', 'item', 'value', 'length', 'letter', 'even',
              'odd', 'first', 'last', 'items', 'data', 'index', 'start',
              'end', 'roman', 'x_y', 'var')


def run_attrname(case):
    """sequence-var-NAME / first-NAME / last-NAME for element attributes
    whose name is also the name of a sequence variable (or looks odd)"""
    from DocumentTemplate import HTML
    res = Res(nontrivial=True)
    name = case['attr']
    mapping = case['mapping']
    t = HTML('<dtml-in seq%s>[<dtml-var sequence-var-%s>;<dtml-if first-%s>1'
             '<dtml-else>0</dtml-if>;<dtml-if last-%s>1<dtml-else>0</dtml-if>'
             ';<dtml-var sequence-number>]</dtml-in>'
             % (' mapping' if mapping else '', name, name, name))
    n = 0
    for length in range(1, 5):
        for xs in itertools.product((1, 2), repeat=length):
            seq = []
            for x in xs:
                if mapping:
                    seq.append({name: x})
                else:
                    e = Elem(0, 0)
                    e.__dict__[name] = x
                    seq.append(e)
            exp = ''.join('[%d;%d;%d;%d]' % (
                x, i == 0 or xs[i - 1] != x,
                i == length - 1 or xs[i + 1] != x, i + 1)
                for i, x in enumerate(xs))
            try:
                got = t(seq=seq)
            except Exception as e:
                got = 'raised %r' % (e,)
            n += 1
            if got != exp:
                res.violate('sequence-variables', 'attrname:%s' % name,
                            {'xs': xs, 'mapping': mapping, 'got': got,
                             'expected': exp}, case)
                break
    res.evals = n
    res.outcome = 'attrname'
    return res


def run(case):
    res = Res()
    if 'attr' in case:
        return run_attrname(case)
    if 'nested' in case:
        return run_nested(case)
    if 'long' in case:
        return run_long(case)
    if 'xs' in case:
        one(res, case, case['xs'])
        res.nontrivial = True
        return res
    n = case['n']
    has_x = case['kind'] in ('obj', 'map', 'pair', 'mix', 'mixstr',
                             'pairmap')
    pats = itertools.product((1, 2), repeat=n) if has_x else [(1,) * n]
    if case.get('dom') == 'falsy':
        pats = itertools.product((0, None, '', 3), repeat=n)
    ev = nt = 0
    for xs in pats:
        got = one(res, case, list(xs))
        ev += 1
        if n >= 2:
            nt += 1
            if res.sample is None:
                res.sample = dict(case, xs=list(xs), rendered=repr(got))
    res.evals = ev
    res.nt_count = nt
    res.outcome = '%s:%s' % (case['kind'], case['cont'])
    return res


def finalize(tier, agg):
    if agg['nontrivial'] < 2000:
        raise HarnessFault('vacuous: too few non-trivial sequences')
    if to_roman(4) != 'IV' or to_roman(14) != 'XIV':
        raise HarnessFault('self-test: roman numerals')
    e = expected('obj', [], 0, [1, 1, 2])
    if ';1;1;0;1;0]' not in e or ';1;0;1;1;1]' not in e or \
            ';2;1;1;2;2]' not in e:
        raise HarnessFault('self-test: first-x/last-x table: %s' % e)
    return {}
