"""C20 - tree state survives its cookie encoding and tracks expand/collapse
clicks.

Family codec:  nested state lists (flat / deep / mixed, ASCII and non-ASCII
               ids made incompressible from a hash stream) generated so that
               their compressed size sweeps every length in a range that
               crosses the 57- and 76-byte chunk thresholds several times;
               decode_seq(encode_seq(s)) == s, and the same for encode_str
               as used in the links.
Family click:  explicit-state search.  For every ordered rooted tree shape
               (node/depth bound) and id kind, a state is the cookie the
               previous rendering set; the enabled events are the links
               found in that rendering plus expand_all and collapse_all.
               All histories up to a depth literally, then breadth-first
               with deduplication on the decoded cookie until no new state
               appears.  Every rendering is judged against a reference model
               that is a set E of expanded nodes.
"""

import hashlib
import json
import re

from ..core import CaseTimeout
from ..core import HarnessFault
from ..core import Res

ID = 'C20'
LEVEL = 'model_checking'
MANIFEST = {
    'technique': 'explicit-state breadth-first search over click histories '
                 'of the real dtml-tree renderer (states = decoded cookies, '
                 'transitions = the links the renderer itself printed), '
                 'every state judged against a set-of-expanded-nodes model; '
                 'plus an exhaustive length sweep of the state codec',
    'text': 'For every ordered rooted tree with <= 6 (quick) / <= 7 '
            '(thorough) nodes and depth <= 4, with short, long and '
            'non-ASCII ids, the click graph of the real renderer is '
            'explored: all histories of length <= 3-4 (quick) / <= 4-6 '
            '(thorough) literally, then to a fixed point with '
            'deduplication on the decoded cookie.  In every state the rows '
            'must be the depth-first listing of the root children and of '
            'the children of expanded nodes, every node with children must '
            'carry exactly one link (collapse iff expanded) whose decoded '
            'path is that node, leaves none, the cookie must decode to the '
            'expanded set, and following a link must change the set by '
            'exactly that node (collapse also forgets its descendants).  '
            'From every reachable state every link printed on some other '
            'page (a stale window) is clicked once: page, links and cookie '
            'must agree, the clicked node ends expanded resp. collapsed '
            'with everything below it, and no node off the link path '
            'changes.  The codec family round-trips states of every compressed length '
            '8..300 bytes.  Shapes of <= 5/6 nodes are also explored with '
            'the assume_children option (a childless node carries an expand '
            'link until it has been expanded), with reverse, with numeric '
            'and false ids (0, empty string), and with the single option '
            '(no cookie: the clicked link alone determines what is open).',
    'more': 'Also: trees of 7 nodes with ids unique among siblings only; ids with white space at their edges.',
    'note': 'Trusted: the 40-line set model and the HTML row/link parser in '
            'this driver; zlib/json of the standard library to measure the '
            'compressed length of generated states.',
}
RULE = ('click: shapes x id kinds x histories as above; a state is '
        'non-trivial when at least one node is expanded.  codec: states of '
        'every compressed length in the swept range.')
ASSUMPTIONS = ['node ids are unique among siblings (id kind short-dup: '
               'only among siblings)', 'the root row is not '
               'displayed (dtml-tree shows the children of its object)']
CASE_CPU_SECONDS = 600.0
CASE_CPU_SECONDS_QUICK = 15.0

LINK = re.compile(r'<a name="([^"]*)" href="([^"?]*)\?tree-([ec])=([^#"]*)#')
ROW = re.compile(r'<tr>\n(.*?)</tr>\n', re.S)
BODY = re.compile(r'\[\[(.*?)\]\]', re.S)


# ---------------------------------------------------------------- shapes

def shapes(n):
    """all ordered rooted trees with exactly n nodes, as nested lists of
    children: [] is a leaf"""
    if n == 1:
        yield []
        return
    for forest in forests(n - 1):
        yield forest


def forests(n):
    if n == 0:
        yield []
        return
    for k in range(1, n + 1):
        for first in shapes(k):
            for rest in forests(n - k):
                yield [first] + rest


def depth(t):
    return 1 + max([depth(c) for c in t], default=0)


def make_id(kind, i):
    if kind == 'int':
        return i            # list positions as ids: 0 is an id like any other
    if kind == 'falsy':
        return ('', 0, 1.5, 'x', 7, 'y', 8, 'z', 9)[i]
    if kind == 'ws':
        # ids with white space at their edges (and one that differs from
        # another only by it): an id is an id
        return (' n%d', 'n%d ', '\xa0n%d', 'n%d\t', '\u3000n%d\n', 'n %d',
                '\x0bn%d\x1f', ' n%d ', 'n%d')[i % 9] % (i // 2)
    if kind == 'short':
        return 'n%d' % i
    if kind == 'long':
        return 'n%d-' % i + hashlib.sha1(b'%d' % i).hexdigest()[:26]
    return '\xe9中%d\U0001F600' % i


class TNode:
    def __init__(self, ident):
        self.ident = ident
        self.kids = []

    def tpId(self):
        return self.ident

    def tpURL(self):
        return 'u'

    def tpValues(self):
        return self.kids


class Leaf:
    """content object: no tpValues attribute at all"""

    def __init__(self, ident):
        self.ident = ident
        self.kids = []

    def tpId(self):
        return self.ident

    def tpURL(self):
        return 'u'


def build_tree(shape, kind):
    """-> (root TNode, children map id -> [ids], parent map)"""
    counter = [0]
    children, parent = {}, {}
    plain_leaves = kind == 'short-leafobj'
    if plain_leaves:
        kind = 'short'

    dup = kind == 'short-dup'
    if dup:
        kind = 'short'

    def mk(sh, par, sib):
        i = counter[0]
        counter[0] += 1
        # with dup ids a node id is unique among its siblings only
        ident = make_id(kind, sib if dup else i)
        node = (Leaf if plain_leaves and not sh else TNode)(ident)
        key = (par or ()) + (ident,)
        node.key = key
        children[key] = []
        parent[key] = par
        for j, c in enumerate(sh):
            k = mk(c, key, j)
            node.kids.append(k)
            children[key].append(k.key)
        return node

    root = mk(shape, None, 0)
    return root, children, parent


# ---------------------------------------------------------------- model

def model_rows(root_id, children, E, reverse=False):
    out = []

    def walk(v):
        for c in (children[v][::-1] if reverse else children[v]):
            out.append(c)
            if c in E:
                walk(c)
    walk(root_id)
    return out


def descendants(v, children):
    out = set()
    for c in children[v]:
        out.add(c)
        out |= descendants(c, children)
    return out


def path_to(v, parent):
    """a node key *is* the list of ids from the root down to the node"""
    return list(v)


def state_ids(state, root_id):
    """expanded node keys (id paths) recorded in a decoded cookie"""
    out = set()

    def walk(lst, prefix):
        for sub in lst:
            key = prefix + (sub[0],)
            out.add(key)
            if len(sub) > 1:
                walk(sub[1], key)
    walk(state, ())
    out.discard(root_id)
    return out


# ---------------------------------------------------------------- impl

class Response:
    def __init__(self):
        self.cookie = None

    def setCookie(self, name, value, **kw):
        if name == 'tree-s':
            self.cookie = value


_tmpl = {}


def template(opt=''):
    if opt not in _tmpl:
        import TreeDisplay  # noqa: F401  registers the tree tag
        from DocumentTemplate import HTML
        _tmpl[opt] = HTML('<dtml-tree root %s>[[<dtml-var tpId>]]</dtml-tree>'
                          % opt)
    return _tmpl[opt]


def render(root, request, opt=''):
    resp = Response()
    ns = {'root': root, 'URL': 'http://h/doc', 'RESPONSE': resp}
    ns.update(request)
    try:
        out = template(opt)(**ns)
    except CaseTimeout:
        raise
    except Exception as e:
        return e, resp.cookie
    return out, resp.cookie


def parse(out):
    """-> [(node id, link kind or None, link parameter)]"""
    rows = []
    for m in ROW.finditer(out):
        cell = m.group(1)
        b = BODY.search(cell)
        links = LINK.findall(cell)
        rows.append((b.group(1) if b else None, links))
    return rows


def judge_state(res, ctx, E, out, cookie, via):
    """all per-state clauses; returns the events (links) found"""
    from TreeDisplay.TreeTag import decode_seq
    root_id, children, parent = ctx['root_id'], ctx['children'], ctx['parent']
    sub = {'shape': ctx['shape'], 'ids': ctx['ids'], 'history': via}
    if ctx.get('opt'):
        sub['opt'] = ctx['opt']
    if ctx.get('stale'):
        sub = None      # replay: the whole exploration of this tree
    if isinstance(out, BaseException):
        res.violate('rows', 'render-exc:%s:%s' % (type(out).__name__,
                                                   ctx['ids']),
                    {'exception': repr(out)[:300], 'history': via}, sub)
        return None
    rows = parse(out)
    shown = [r[0] for r in rows]
    want = model_rows(root_id, children, E, ctx.get('opt') == 'reverse')
    events = []
    tag = ctx['ids']
    if shown != [str(k[-1]) for k in want]:
        res.violate('rows', 'rows:%s' % tag,
                    {'expanded': sorted(E, key=repr), 'shown': shown,
                     'expected': [str(k[-1]) for k in want],
                     'history': via}, sub)
        return None
    for ident, (_shown_id, links) in zip(want, rows):
        # with assume_children a childless node is drawn with an expand
        # link until it has been expanded (and found empty)
        has_kids = bool(children[ident]) or (
            ctx.get('opt') == 'assume_children' and ident not in E)
        if not has_kids:
            if links:
                res.violate('links', 'leaf-has-link:%s' % tag,
                            {'node': ident, 'history': via}, sub)
            continue
        if len(links) != 1:
            res.violate('links', 'link-count:%s' % tag,
                        {'node': ident, 'links': len(links),
                         'history': via}, sub)
            return None
        name, root_url, kind, param = links[0]
        if (kind == 'c') != (ident in E):
            res.violate('links', 'link-kind:%s' % tag,
                        {'node': ident, 'kind': kind, 'expanded':
                         sorted(E, key=repr), 'history': via}, sub)
        try:
            path = decode_seq(param)
        except CaseTimeout:
            raise
        except Exception as e:
            path = 'EXC %r' % (e,)
        if path != path_to(ident, parent):
            res.violate('links', 'link-path:%s' % tag,
                        {'node': ident, 'decoded': path,
                         'expected': path_to(ident, parent),
                         'history': via}, sub)
        events.append((kind, ident, param))
    try:
        st = decode_seq(cookie) if cookie is not None else None
    except CaseTimeout:
        raise
    except Exception as e:
        st = 'EXC %r' % (e,)
    got = state_ids(st, root_id) if isinstance(st, list) else st
    if ctx.get('opt') == 'single':
        if cookie is not None:
            res.violate('cookie', 'cookie-written-with-single:%s' % tag,
                        {'history': via}, sub)
    elif got != E:
        res.violate('cookie', 'cookie:%s' % tag,
                    {'expanded': sorted(E, key=repr), 'cookie_decodes_to':
                     sorted(got, key=repr) if isinstance(got, set) else got,
                     'history': via}, sub)
    return events


def step_model(E, ev, ctx):
    kind, ident = ev[0], ev[1]
    if kind == 'expand_all':
        return frozenset(v for v in ctx['children']
                         if ctx['children'][v] and v != ctx['root_id'])
    if kind == 'collapse_all':
        return frozenset()
    if ctx.get('opt') == 'single':
        # no state is kept between requests: the link alone says what is
        # open - the nodes on its path (the page that carried the link
        # showed them open), without the node itself for a collapse link
        path = {tuple(ident[:i]) for i in range(2, len(ident) + 1)}
        return frozenset(path if kind == 'e' else path - {ident})
    if kind == 'e':
        return frozenset(E | {ident})
    return frozenset(E - {ident} - descendants(ident, ctx['children']))


def step_impl(root, cookie, ev, opt=''):
    kind = ev[0]
    req = {}
    if cookie is not None:
        req['tree-s'] = cookie
    if kind in ('expand_all', 'collapse_all'):
        req[kind] = 1
    else:
        req['tree-' + kind] = ev[2]
    return render(root, req, opt)


def explore(res, ctx, root, literal_depth):
    """-> (states, transitions)"""
    E0 = frozenset()
    opt = ctx.get('opt', '')
    extra = [] if opt == 'assume_children' else [('expand_all', None, None),
                            ('collapse_all', None, None)]
    out, cookie = render(root, {}, opt)
    ev0 = judge_state(res, ctx, E0, out, cookie, [])
    if ev0 is None:
        return 1, 0
    transitions = 0
    # phase 1: every history up to literal_depth, literally
    frontier = [(E0, cookie, ev0, [])]
    seen = {E0: (out, cookie)}
    links_of = {E0: (ev0, [])}
    for d in range(literal_depth):
        nxt = []
        for E, ck, evs, hist in frontier:
            for ev in list(evs) + extra:
                out2, ck2 = step_impl(root, ck, ev, opt)
                transitions += 1
                E2 = step_model(E, ev, ctx)
                h2 = hist + [[ev[0], ev[1]]]
                evs2 = judge_state(res, ctx, E2, out2, ck2, h2)
                if evs2 is None:
                    continue
                if E2 in seen and seen[E2][0] != out2:
                    res.violate('history-independent',
                                'differential:%s' % ctx['ids'],
                                {'expanded': sorted(E2, key=repr), 'history': h2},
                                {'shape': ctx['shape'], 'ids': ctx['ids'],
                                 'history': h2})
                seen.setdefault(E2, (out2, ck2))
                links_of.setdefault(E2, (evs2, h2))
                nxt.append((E2, ck2, evs2, h2))
        frontier = nxt
    # phase 2: breadth-first with deduplication until no new state
    queue = [(E, ck, evs, hist) for E, ck, evs, hist in frontier]
    queue += [(E0, cookie, ev0, [])]
    done = set()
    while queue:
        E, ck, evs, hist = queue.pop(0)
        if E in done:
            continue
        done.add(E)
        for ev in list(evs) + extra:
            out2, ck2 = step_impl(root, ck, ev, opt)
            transitions += 1
            E2 = step_model(E, ev, ctx)
            h2 = hist + [[ev[0], ev[1]]]
            evs2 = judge_state(res, ctx, E2, out2, ck2, h2)
            if evs2 is None:
                continue
            if E2 in seen and seen[E2][0] != out2:
                res.violate('history-independent',
                            'differential:%s' % ctx['ids'],
                            {'expanded': sorted(E2, key=repr), 'history': h2},
                            {'shape': ctx['shape'], 'ids': ctx['ids'],
                             'history': h2})
            seen.setdefault(E2, (out2, ck2))
            links_of.setdefault(E2, (evs2, h2))
            if E2 not in done:
                queue.append((E2, ck2, evs2, h2))
    if not opt:
        transitions += stale_clicks(res, ctx, root, seen, links_of)
    return len(seen), transitions


def stale_clicks(res, ctx, root, seen, links_of):
    """One click, from every reachable state, on every link the tag
    generated on some *other* page (a page kept open in another window).
    What such a click does to the nodes on the link's path is not spelled
    out, so the oracle is the part that is: the page, its links and the
    cookie agree with each other; an expand link leaves its node expanded
    and a collapse link leaves it (and everything below it) collapsed; and
    no node off the link's path changes."""
    from TreeDisplay.TreeTag import decode_seq
    every = {}
    for evs, _h in links_of.values():
        for ev in evs:
            every.setdefault((ev[0], ev[1]), ev)
    n = 0
    for E, (evs, hist) in links_of.items():
        here = {(ev[0], ev[1]) for ev in evs}
        for key, ev in every.items():
            if key in here:
                continue
            kind, ident = key
            out2, ck2 = step_impl(root, seen[E][1], ev)
            n += 1
            h2 = hist + [['stale-' + kind, list(ident)]]
            sub = None
            if isinstance(out2, BaseException):
                judge_state(res, dict(ctx, stale=1), E, out2, ck2, h2)
                continue
            try:
                E2 = frozenset(state_ids(decode_seq(ck2), ctx['root_id']))
            except CaseTimeout:
                raise
            except Exception as e:
                res.violate('cookie', 'stale:cookie:%s' % ctx['ids'],
                            {'history': h2, 'exception': repr(e)[:200]}, sub)
                continue
            if judge_state(res, dict(ctx, stale=1), E2, out2, ck2, h2) is None:
                continue
            path = {tuple(ident[:i]) for i in range(1, len(ident) + 1)}
            below = descendants(ident, ctx['children'])
            if kind == 'e':
                ok = ident in E2 and E <= E2 and E2 <= (E | path)
            else:
                ok = ident not in E2 and not (below & E2) and \
                    (E2 - path) == (E - path - below)
            if not ok:
                res.violate('links', 'stale:%s:%s' % (kind, ctx['ids']),
                            {'expanded_before': sorted(E, key=repr), 'clicked': [
                                kind, list(ident)],
                             'expanded_after': sorted(E2, key=repr), 'history': h2},
                            sub)
    res.count('stale_clicks', n)
    return n


def replay_history(res, ctx, root, history):
    E = frozenset()
    opt = ctx.get('opt', '')
    out, ck = render(root, {}, opt)
    evs = judge_state(res, ctx, E, out, ck, [])
    hist = []
    for kind, ident in history:
        if evs is None:
            return
        if kind in ('expand_all', 'collapse_all'):
            ev = (kind, None, None)
        else:
            match = [e for e in evs if e[0] == kind and
                     tuple(e[1]) == tuple(ident)]
            if not match:
                res.violate('links', 'replay:link-missing',
                            {'history': history, 'at': [kind, ident]})
                return
            ev = match[0]
        out, ck = step_impl(root, ck, ev, opt)
        E = step_model(E, ev, ctx)
        hist = hist + [[kind, ident]]
        evs = judge_state(res, ctx, E, out, ck, hist)


# ---------------------------------------------------------------- codec

def hash_stream(seed):
    i = 0
    while True:
        for ch in hashlib.sha256(b'%d:%d' % (seed, i)).hexdigest():
            yield ch
        i += 1


def codec_states():
    """states of many sizes and shapes"""
    for ascii_only in (True, False):
        for shape in ('flat', 'deep', 'mixed'):
            for idlen in (1, 2, 3, 4, 5, 6, 7, 8, 9, 11, 13):
                hs = hash_stream(idlen * 7 + (0 if ascii_only else 1))

                def ident():
                    s = ''.join(next(hs) for _ in range(idlen))
                    return s if ascii_only else s + '\xe9€'
                for count in range(0, 40):
                    ids = [ident() for _ in range(count)]
                    if shape == 'flat':
                        st = [['root', [[i] for i in ids]]]
                    elif shape == 'deep':
                        inner = []
                        for i in reversed(ids):
                            inner = [[i, inner]] if inner else [[i]]
                        st = [['root', inner]] if inner else [['root']]
                    else:
                        st = [['root', [[i, [[j] for j in ids[:3]]]
                                        for i in ids]]]
                    yield st


def big_states():
    """large but highly compressible states: the cookie stays short while
    the JSON text is several kilobytes"""
    for count in (60, 120, 250, 500, 1200):
        for fmt in ('n%05d', 'node-with-a-long-name-%05d', '\xe9\u4e2d%04d'):
            ids = [fmt % i for i in range(count)]
            yield [['root', [[i] for i in ids]]]
            yield [['root', [[i, [[j] for j in ids[:2]]] for i in ids]]]
            inner = []
            for i in reversed(ids[:200]):
                inner = [[i, inner]] if inner else [[i]]
            yield [['root', inner]]


def run_codec(res, case):
    import zlib

    from TreeDisplay.TreeTag import compress
    from TreeDisplay.TreeTag import decode_seq
    from TreeDisplay.TreeTag import encode_seq
    from TreeDisplay.TreeTag import encode_str
    lengths = set()
    n = 0
    for st in codec_states():
        clen = len(zlib.compress(json.dumps(st).encode('utf-8')))
        if clen > 320:
            continue
        lengths.add(clen)
        n += 1
        for how in ('seq', 'str'):
            try:
                if how == 'seq':
                    enc = encode_seq(st)
                else:
                    enc = encode_str(compress(json.dumps(st))).decode('ascii')
                back = decode_seq(enc)
            except CaseTimeout:
                raise
            except Exception as e:
                back = 'EXC %r' % (e,)
            if back != st:
                res.violate('codec', 'codec:%s:%s' % (how, 'over-57' if clen > 57 else 'short'),
                            {'state': st, 'compressed_length': clen,
                             'decoded': back},
                            {'fam': 'codec-one', 'state': st})
            elif re.search(r'[^A-Za-z0-9/_=-]', enc):
                res.violate('codec', 'codec:%s:unsafe-characters' % how,
                            {'encoded': enc})
    for st in big_states():
        n += 1
        jlen = len(json.dumps(st))
        try:
            enc = encode_seq(st)
            back = decode_seq(enc)
        except CaseTimeout:
            raise
        except Exception as e:
            back = 'EXC %r' % (e,)
        if back != st:
            res.violate('codec', 'codec:seq:large-state',
                        {'json_length': jlen, 'cookie_length': len(enc)
                         if isinstance(back, list) or 'enc' in dir() else None,
                         'decoded': repr(back)[:200]},
                        {'fam': 'codec-one', 'state': st})
    res.evals = n * 2
    res.nt_count = n
    res.states = n
    res.transitions = n * 2
    res.traces = n
    res.count('codec-lengths', len(lengths))
    missing = [x for x in range(30, 300) if x not in lengths]
    res.count('codec-missing-lengths', len(missing))
    res.sample = {'codec_lengths_covered': [min(lengths), max(lengths)],
                  'missing_in_30_300': missing[:20]}


# ---------------------------------------------------------------- driver

def all_shapes(maxnodes):
    out = [[]]           # the tree that consists of its root only
    for n in range(2, maxnodes + 1):
        for sh in shapes(n):
            if depth(sh) <= 5:       # root + depth 4 below it
                out.append(sh)
    return out


def cases(tier):
    maxnodes = 7 if tier == 'quick' else 8
    yield {'fam': 'codec'}
    for si, sh in enumerate(all_shapes(maxnodes)):
        nodes = json.dumps(sh).count('[')
        for ids in ('short', 'long', 'nonascii'):
            if tier == 'quick':
                lit = 4 if nodes <= 5 else 3
            else:
                lit = 6 if nodes <= 5 else (5 if nodes <= 7 else 4)
            yield {'fam': 'click', 'shape': sh, 'ids': ids, 'literal': lit}
        if nodes <= 6:
            # heterogeneous trees: the leaves are content objects without
            # a tpValues attribute
            yield {'fam': 'click', 'shape': sh, 'ids': 'short-leafobj',
                   'literal': 3}
        if nodes <= 6:
            # ids that are numbers, among them 0 (list positions), and ''
            yield {'fam': 'click', 'shape': sh, 'ids': 'int', 'literal': 3}
            yield {'fam': 'click', 'shape': sh, 'ids': 'ws', 'literal': 3}
            yield {'fam': 'click', 'shape': sh, 'ids': 'falsy', 'literal': 3}
        if nodes <= maxnodes:
            # node ids that are unique among siblings only (from 7 nodes on
            # two inner nodes of the same depth and id have children)
            yield {'fam': 'click', 'shape': sh, 'ids': 'short-dup',
                   'literal': 3}
        if nodes <= 6:
            # option reverse: every level is listed backwards (and the
            # lists the nodes hand out stay as they are)
            yield {'fam': 'click', 'shape': sh, 'ids': 'short',
                   'literal': 3, 'opt': 'reverse'}
        if nodes <= 6:
            # option single: no cookie, the state travels in the links
            yield {'fam': 'click', 'shape': sh, 'ids': 'short',
                   'literal': 3, 'opt': 'single'}
        if nodes <= (5 if tier == 'quick' else 6):
            # option assume_children: every node carries a link; expanding
            # a childless node only records it in the state
            yield {'fam': 'click', 'shape': sh, 'ids': 'short',
                   'literal': 3, 'opt': 'assume_children'}


def run(case):
    res = Res()
    if case.get('fam') == 'codec':
        run_codec(res, case)
        res.outcome = 'codec'
        return res
    if case.get('fam') == 'codec-one':
        from TreeDisplay.TreeTag import decode_seq
        from TreeDisplay.TreeTag import encode_seq
        if decode_seq(encode_seq(case['state'])) != case['state']:
            res.violate('codec', 'codec:replay', case['state'])
        res.nontrivial = True
        return res
    root, children, parent = build_tree(case['shape'], case['ids'])
    ctx = {'root_id': root.key, 'children': children, 'parent': parent,
           'shape': case['shape'], 'ids': case['ids'],
           'opt': case.get('opt', '')}
    if 'history' in case:
        replay_history(res, ctx, root, case['history'])
        res.nontrivial = True
        return res
    states, transitions = explore(res, ctx, root, case['literal'])
    res.states = states
    res.transitions = transitions
    res.traces = transitions
    res.evals = transitions + 1
    res.nt_count = max(states - 1, 0)
    res.sample = {'shape': case['shape'], 'ids': case['ids'],
                  'states': states, 'transitions': transitions}
    res.outcome = 'click:%s' % case['ids']
    return res


def finalize(tier, agg):
    c = agg['counters']
    if c.get('codec-missing-lengths', 1):
        raise HarnessFault('codec sweep leaves %d compressed lengths in '
                           '30..300 uncovered' % c.get('codec-missing-lengths'))
    if agg['states'] < 500:
        raise HarnessFault('vacuous: too few states')
    # model self-test
    ch = {'r': ['a', 'b'], 'a': ['a1'], 'a1': [], 'b': []}
    if model_rows('r', ch, {'a'}) != ['a', 'a1', 'b'] or \
            descendants('r', ch) != {'a', 'a1', 'b'} or \
            state_ids([['r', [['a', [['a']]], ['b']]]], ('r',)) != {
                ('r', 'a'), ('r', 'a', 'a'), ('r', 'b')}:
        raise HarnessFault('self-test: tree model')
    return {'codec_lengths': c.get('codec-lengths', 0)}
