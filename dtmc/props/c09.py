"""C09 - if/elif/else/unless/call: first true branch, lazily, evaluated once.

Every chain of 1..N conditions (named logging callable / expression calling a
logging callable / undefined name / expression over an uncalled name) x every
truth assignment x with/without else x every body re-reference form is
rendered and its text *and ordered call log* compared with the reference
interpreter (dtmc/refsem.py).
"""

import itertools

from .. import harness
from ..ast import E
from ..ast import N
from ..ast import T
from ..core import HarnessFault
from ..core import Res

ID = 'C09'
LEVEL = 'model_checking'
MANIFEST = {
    'technique': 'exhaustive enumeration of conditional chains; output and ordered call trace compared with a reference interpreter for every case',
    'text': 'All if/elif/else chains up to 4 (quick) / 5 (thorough) conditions over four condition kinds, every truth assignment, else/no else and every re-reference form, plus unless and call, are rendered on the real code; text and the ordered log of invoked namespace callables must equal the trace predicted by the reference interpreter (dtmc/refsem.py).',
    'more': 'Also: condition values that are callable and render themselves with the namespace; 50..700 conditionals in one rendering whose conditions are documents without defaults; sections that begin with white space other than blanks-and-newline.',
    'note': 'Trusted: the reference interpreter (written from the statement, imports nothing from DocumentTemplate); logging callables are the only observed side-effect channel.',
}
RULE = ('all if/elif/else chains of 1..N conditions (N=4 quick, 5 thorough) '
        'over condition kinds {named probe, expression calling a probe, '
        'undefined name, expression naming a probe uncalled} x all truth '
        'assignments x else present/absent x every body re-reference form '
        '(none, var, nested if, let, in, nested-in-let) of every condition '
        'index; plus unless and call forms; plus 2-3 sibling conditionals / '
        'calls testing the same name (plain and inside dtml-in); each '
        'printed in one of the three '
        'syntaxes (all three in thorough).  The reference model predicts '
        'output and the ordered trace of invoked callables; a case is '
        'non-trivial when at least one probe is invoked.')
ASSUMPTIONS = ['probe callables are the only side-effect channel observed',
               'dtml-call of an undefined name is not fixed by the statement '
               'and is not generated']

KINDS = ('name', 'callexpr', 'undef', 'nameexpr')


def cond_ref(kind, i):
    if kind == 'name':
        return N('c%d' % i)
    if kind == 'callexpr':
        return E('c%d()' % i)
    if kind == 'undef':
        return N('u%d' % i)
    return E('c%d' % i)          # the callable itself: always true, uncalled


def reref(form, k):
    name = 'c%d' % k
    if form == 'var':
        return [['var', N(name), []]]
    if form == 'if':
        return [['if', [[N(name), [T('y')]]], [T('n')]]]
    if form == 'let':
        return [['let', [['z', N(name)]], [['var', N('z'), []]]]]
    if form == 'in':
        return [['in', N('s2'), [['var', N(name), []]], None, []]]
    if form == 'letin':
        return [['let', [['q', E('1')]],
                 [['in', N('s2'), [['if', [[N(name), [T('y')]]], None]],
                   None, []]]]]
    if form == 'expr':
        return [['var', E("_['%s']" % name), []]]
    raise ValueError(form)


FORMS = ('var', 'if', 'let', 'in', 'letin', 'expr')
FALSY = ['', None, 0, [], 0.0, ()]


def cases(tier):
    maxn = 4 if tier == 'quick' else 5
    syntaxes = ('dtml', 'ssi', 'epfs')
    idx = 0
    for n in range(1, maxn + 1):
        kinds_iter = itertools.product(KINDS, repeat=n)
        for kinds in kinds_iter:
            if n >= 4 and kinds.count('nameexpr') > 1:
                continue
            defined = [i for i, k in enumerate(kinds) if k != 'undef']
            for truth in itertools.product((0, 1), repeat=len(defined)):
                tv = dict(zip(defined, truth))
                for has_else in (0, 1):
                    refs = [None] + [(f, k) for k in range(n) for f in FORMS
                                     if kinds[k] != 'undef']
                    if n >= 4:
                        refs = [None] + [(f, k) for k in range(n)
                                         for f in ('var', 'if', 'in')
                                         if kinds[k] != 'undef']
                    for rr in refs:
                        idx += 1
                        sx = [syntaxes[idx % 3]] if tier == 'quick' \
                            else syntaxes
                        for s in sx:
                            yield {'form': 'if', 'kinds': list(kinds),
                                   'truth': [tv.get(i) for i in range(n)],
                                   'else': has_else, 'reref': rr,
                                   'syntax': s}
    # condition values that are callable *and* render themselves when
    # given the namespace (DTML methods, scripts): a name-form condition
    # uses the second protocol, once; an expression gets the object
    for n in (1, 2, 3):
        for kinds in itertools.product(('name', 'callexpr', 'nameexpr'),
                                       repeat=n):
            for truth in itertools.product((0, 1), repeat=n):
                for has_else in (0, 1):
                    for rr in [None] + [(f, k) for k in range(n)
                                        for f in ('var', 'if', 'expr')]:
                        idx += 1
                        yield {'form': 'if', 'kinds': list(kinds),
                               'truth': list(truth), 'else': has_else,
                               'reref': rr, 'rwn': 1,
                               'syntax': syntaxes[idx % 3]}
    for kind in ('name', 'callexpr', 'nameexpr'):
        for truth in (0, 1):
            for form in ('unless', 'call'):
                idx += 1
                yield {'form': form, 'kinds': [kind], 'truth': [truth],
                       'else': 0, 'reref': None, 'rwn': 1,
                       'syntax': syntaxes[idx % 3]}
    # chains that test the same name again in a later condition, with
    # callables whose result changes from call to call: the later condition
    # must reuse the value of the first evaluation
    vals = (('', 'T'), ('T', ''), ('', ''), ('T', 'T'))
    for n in (2, 3, 4):
        for names in itertools.product((0, 1), repeat=n):
            if len(set(names)) == n:
                continue
            for v0 in vals:
                for v1 in vals:
                    for has_else in (0, 1):
                        for rr in (None, ('var', 0), ('if', 1)):
                            idx += 1
                            yield {'form': 'repeat', 'names': list(names),
                                   'kinds': ['name'] * n,
                                   'vals': [list(v0), list(v1)],
                                   'truth': [], 'else': has_else,
                                   'reref': rr, 'syntax': syntaxes[idx % 3]}
    for kind in KINDS:
        for truth in (0, 1):
            for rr in [None] + [(f, 0) for f in FORMS]:
                if kind == 'undef' and rr:
                    continue
                for s in syntaxes:
                    yield {'form': 'unless', 'kinds': [kind],
                           'truth': [truth], 'else': 0, 'reref': rr,
                           'syntax': s}
    for kind in ('name', 'callexpr', 'nameexpr'):
        for truth in (0, 1):
            for s in syntaxes:
                yield {'form': 'call', 'kinds': [kind], 'truth': [truth],
                       'else': 0, 'reref': None, 'syntax': s}
    yield {'form': 'special'}
    yield {'form': 'late'}
    for pre in ('\r\n', '\x0c\n', '\xa0\n', '\u2028\n', '\x0b \n', '\x85\n',
                '\r', '\u3000\n', 'x \n'):
        for n in (1, 2):
            for truth in itertools.product((0, 1), repeat=n):
                for has_else in (0, 1):
                    for s in syntaxes:
                        yield {'form': 'if', 'kinds': ['name'] * n,
                               'truth': list(truth), 'else': has_else,
                               'reref': None, 'bodypre': pre, 'syntax': s}
    for rows in (50, 150, 201, 250, 700):
        for conds in ('tmpl', 'probe'):
            for wrap in ('in', 'try'):
                idx += 1
                yield {'form': 'many', 'rows': rows, 'conds': conds,
                       'wrap': wrap, 'kinds': [], 'truth': [], 'else': 0,
                       'reref': None, 'syntax': syntaxes[idx % 3]}
    # a conditional left by an exception (handled by an enclosing try) or
    # by dtml-return (in a sub-template): what it remembered is gone, the
    # next conditional evaluates the name afresh
    for how in ('raise', 'return'):
        for where in ('if', 'elif', 'else', 'unless'):
            for v0 in (('T', ''), ('', 'T'), ('T', 'T2')):
                for after in ('if', 'unless', 'call+if', 'var'):
                    idx += 1
                    yield {'form': 'abort', 'how': how, 'where': where,
                           'vals': list(v0), 'after': after,
                           'kinds': ['name'], 'truth': [], 'else': 0,
                           'reref': None, 'syntax': syntaxes[idx % 3]}
    # branches with an empty body (an empty branch still ends the search),
    # and every kind of false value (all are remembered like true ones)
    for n in (1, 2, 3):
        for truth in itertools.product((0, 1), repeat=n):
            for has_else in (0, 1):
                slots = list(range(n)) + (['else'] if has_else else [])
                for k in range(1, len(slots) + 1):
                    for empt in itertools.combinations(slots, k):
                        idx += 1
                        yield {'form': 'if', 'kinds': ['name'] * n,
                               'truth': list(truth), 'else': has_else,
                               'reref': None, 'empties': list(empt),
                               'syntax': syntaxes[idx % 3]}
    for n in (1, 2):
        for fz in itertools.product(range(len(FALSY)), repeat=n):
            for has_else in (0, 1):
                for rr in [None] + [(f, k) for k in range(n)
                                    for f in ('var', 'if', 'let', 'expr')]:
                    idx += 1
                    yield {'form': 'if', 'kinds': ['name'] * n,
                           'truth': [0] * n, 'falsy': list(fz),
                           'else': has_else, 'reref': rr,
                           'syntax': syntaxes[idx % 3]}
                    if n == 1:
                        yield {'form': 'unless', 'kinds': ['name'],
                               'truth': [0], 'falsy': list(fz), 'else': 0,
                               'reref': rr, 'syntax': syntaxes[idx % 3]}
    # sibling conditionals / calls testing the same name: each one has its
    # own cache, so each evaluates the name again (once)
    sib = ('if', 'ifelse', 'unless', 'call', 'ifvar')
    for n in (2, 3):
        for tags in itertools.product(sib, repeat=n):
            for truth in (0, 1):
                for nest in (0, 1):
                    for s in syntaxes:
                        yield {'form': 'siblings', 'tags': list(tags),
                               'kinds': ['name'], 'truth': [truth],
                               'else': 0, 'reref': None, 'nest': nest,
                               'syntax': s}


class _Falsy:
    def __bool__(self):
        return False


class _Ob:
    pass


def special_values():
    import zExceptions
    return [('notfound', zExceptions.NotFound('gone'), True),
            ('unauthorized', zExceptions.Unauthorized('u'), True),
            ('redirect', zExceptions.Redirect('http://x/'), True),
            ('excinst', ValueError('x'), True),
            ('zero-float', 0.0, False), ('text-zero', '0', True),
            ('empty-list', [], False), ('list', [0], True),
            ('empty-dict', {}, False), ('none', None, False),
            ('falsy-object', _Falsy(), False), ('object', _Ob(), True),
            ('bytes', b'x', True), ('empty-bytes', b'', False),
            ('empty-tuple', (), False)]


SPECIAL_SRC = ('<dtml-if v>T<dtml-else>F</dtml-if>|<dtml-unless v>U'
               '</dtml-unless>|<dtml-if nope>x<dtml-elif v>E</dtml-if>|'
               '<dtml-call v>|<dtml-if v><dtml-if v>TT</dtml-if></dtml-if>')
LATE_SRC = ('%s<dtml-if late>A<dtml-else>a</dtml-if><dtml-unless late>u'
            '</dtml-unless><dtml-call set><dtml-if late>B<dtml-else>b'
            '</dtml-if><dtml-unless late>U</dtml-unless><dtml-if nope>n'
            '<dtml-elif late>C</dtml-if>%s')


def run_special(res, case):
    """values of unusual kinds as conditions; names that become defined
    during the render (a side effect of dtml-call) count from then on"""
    from DocumentTemplate import HTML
    n = 0
    if case['form'] == 'special':
        t = HTML(SPECIAL_SRC)
        for name, v, truth in special_values():
            exp = 'T||E||TT' if truth else 'F|U|||'
            for k in (1, 2):        # and again on the compiled template
                n += 1
                try:
                    got = t(v=v)
                except Exception as e:
                    got = 'raised %r' % (e,)
                if got != exp:
                    res.violate('special-value', 'special:%s' % name,
                                {'value': repr(v), 'got': got,
                                 'expected': exp, 'source': SPECIAL_SRC})
                    break
    else:
        for frame in ('client', 'with', 'in', 'with-in'):
            ob = _Ob()

            def setter(ob=ob):
                ob.late = 'L'
                return ''
            ob.set = setter
            pre, post, kw, args = '', '', {}, ()
            if frame == 'client':
                args = (ob,)
            elif frame == 'with':
                pre, post, kw = '<dtml-with o>', '</dtml-with>', {'o': ob}
            elif frame == 'in':
                pre, post, kw = '<dtml-in s>', '</dtml-in>', {'s': [ob]}
            else:
                pre, post, kw = ('<dtml-with o><dtml-in s2>',
                                 '</dtml-in></dtml-with>',
                                 {'o': ob, 's2': [1]})
            n += 1
            src = LATE_SRC % (pre, post)
            try:
                got = HTML(src)(*args, **kw)
            except Exception as e:
                got = 'raised %r' % (e,)
            if got != 'auBC':
                res.violate('defined-later', 'late:%s' % frame,
                            {'source': src, 'got': got, 'expected': 'auBC'})
    res.evals = n
    res.nontrivial = True
    res.traces = res.states = res.transitions = n
    res.outcome = case['form']
    return res


def build(case):
    kinds, truth = case['kinds'], case['truth']
    n = len(kinds)
    rr = case['reref']
    extra = reref(rr[0], rr[1]) if rr else []
    ns = {'s2': ['seq', 'list', [['lit', 10], ['lit', 20]]]}
    fz = case.get('falsy')
    for i, k in enumerate(kinds):
        if k != 'undef' and case['form'] not in ('repeat', 'abort'):
            false = FALSY[fz[i]] if fz else ''
            if isinstance(false, tuple):
                false = ['seq', 'tuple', []]
            else:
                false = ['lit', false]
            ns['c%d' % i] = ['rwn' if case.get('rwn') else 'probe', i,
                             ['lit', 'T%d' % i] if truth[i] else false]
    if case['form'] == 'abort':
        ns = {'c0': ['probeseq', 0, [['lit', v] for v in case['vals']]],
              'boom': ['raiser', 'boom', 'HA', 'x'], 'rv': ['lit', 'R']}
        act = [['var', N('boom'), []]] if case['how'] == 'raise' \
            else [['return', N('rv')]]
        body = [T('A'), ['var', N('c0'), []]] + act + [T('Z')]
        w = case['where']
        first_true = bool(case['vals'][0])
        if w == 'if':
            cond = ['if', [[N('c0'), body]], [T('e')] + (
                [] if first_true else act)]
        elif w == 'elif':
            cond = ['if', [[E('0'), [T('n')]], [N('c0'), body]],
                    [T('e')] + ([] if first_true else act)]
        elif w == 'else':
            cond = ['if', [[N('c0'), [T('t')] + (act if first_true else [])]],
                    body]
        else:
            cond = ['unless', N('c0'), body]
            if first_true:
                cond = ['if', [[N('c0'), body]], None]
        if case['how'] == 'raise':
            first = [['try', [cond], [[[], [T('caught')]]], None]]
        else:
            ns['inner'] = ['tmpl', [cond], {}]
            first = [['var', N('inner'), []]]
        a = case['after']
        if a == 'if':
            then = [['if', [[N('c0'), [T('yes')]]], [T('no')]]]
        elif a == 'unless':
            then = [['unless', N('c0'), [T('un')]]]
        elif a == 'var':
            then = [['var', N('c0'), []]]
        else:
            then = [['call', N('c0')], ['if', [[N('c0'), [T('y')]]], [T('n')]]]
        return [T('<')] + first + [T('|')] + then + [T('>')], ns
    if case['form'] == 'many':
        # scale: hundreds of conditionals in one rendering whose conditions
        # are documents without defaults of their own (DTML methods) and
        # logging callables; every one behaves like the first
        rows = case['rows']
        ns = {'rows': ['seq', 'list', [['lit', i] for i in range(rows)]],
              't0': ['tmpl', [['if', [[E("_['sequence-item'] % 3 == 0"),
                                       [T('y')]]], None]], {}],
              't1': ['tmpl', [['if', [[E("_['sequence-item'] % 3 == 1"),
                                       [T('z')]]], None]], {}],
              'c0': ['probe', 0, ['lit', '']], 'c1': ['probe', 1,
                                                      ['lit', 'T']]}
        a, b = (N('t0'), N('t1')) if case['conds'] == 'tmpl' else \
            (N('c0'), N('c1'))
        body = [['if', [[a, [T('A')]], [b, [T('B'), ['var', b, []]]]],
                 [T('C')]],
                ['unless', a, [T('u')]], ['call', b]]
        if case['wrap'] == 'in':
            nodes = [T('<'), ['in', N('rows'), body, None, []], T('>')]
        else:
            nodes = [T('<'), ['in', N('rows'), [
                ['try', body, [[[], [T('!')]]], None]], None, []], T('>')]
        return nodes, ns
    if case['form'] == 'repeat':
        ns = {'s2': ['seq', 'list', [['lit', 10], ['lit', 20]]]}
        for k in (0, 1):
            ns['c%d' % k] = ['probeseq', k,
                             [['lit', v and v + str(j)]
                              for j, v in enumerate(case['vals'][k])]]
        branches = [[N('c%d' % k), [T('B%d' % i)] + extra]
                    for i, k in enumerate(case['names'])]
        els = ([T('E')] + extra) if case['else'] else None
        nodes = [T('<'), ['if', branches, els], T('>')]
    elif case['form'] == 'if':
        branches = [[cond_ref(k, i), [T('B%d' % i)] + extra]
                    for i, k in enumerate(kinds)]
        els = ([T('E')] + extra) if case['else'] else None
        for e in case.get('empties', []):
            if e == 'else':
                els = []
            else:
                branches[e][1] = []
        if case.get('bodypre'):
            # every section begins with white space that is not "blanks
            # ending in a newline": it belongs to the section
            for br in branches:
                br[1] = [T(case['bodypre'])] + br[1]
            if els is not None:
                els = [T(case['bodypre'])] + els
        nodes = [T('<'), ['if', branches, els], T('>')]
    elif case['form'] == 'siblings':
        c = N('c0')
        parts = []
        for i, tg in enumerate(case['tags']):
            if tg == 'if':
                parts.append(['if', [[c, [T('I%d' % i)]]], None])
            elif tg == 'ifelse':
                parts.append(['if', [[c, [T('I%d' % i)]]], [T('E%d' % i)]])
            elif tg == 'ifvar':
                parts.append(['if', [[c, [T('V'), ['var', c, []]]]],
                              [T('e')]])
            elif tg == 'unless':
                parts.append(['unless', c, [T('U%d' % i)]])
            else:
                parts.append(['call', c])
            parts.append(T('|'))
        if case.get('nest'):
            parts = [['in', N('s2'), parts, None, []]]
        nodes = [T('<')] + parts + [T('>')]
    elif case['form'] == 'unless':
        nodes = [T('<'), ['unless', cond_ref(kinds[0], 0), [T('U')] + extra],
                 T('>')]
    else:
        nodes = [T('<'), ['call', cond_ref(kinds[0], 0)], T('>')]
    del n
    return nodes, ns


def run(case):
    res = Res()
    if case['form'] in ('special', 'late'):
        return run_special(res, case)
    nodes, ns = build(case)
    impl = harness.observe_impl(nodes, ns, case['syntax'])
    ref = harness.observe_ref(nodes, ns)
    if ref['unspec']:
        res.outcome = 'unspec'
        res.count('unspec')
        return res
    res.states = 1 + len(ref['log'])
    res.transitions = len(ref['log']) + 1
    res.traces = 1
    res.nontrivial = bool(ref['log'])
    res.outcome = '%s:%s:%d-calls' % (case['form'], ref['kind'],
                                      min(len(ref['log']), 6))
    why = harness.same(impl, ref)
    if why:
        sig = '%s:%s' % (case['form'], why)
        if why == 'calls':
            sig += ':%s' % ('more' if len(impl['log']) > len(ref['log'])
                            else 'fewer' if len(impl['log']) < len(ref['log'])
                            else 'order')
        res.violate(why, sig, {'impl': impl, 'ref': ref})
    return res


def finalize(tier, agg):
    if agg['outcomes'].get('unspec', 0) > agg['cases'] // 10:
        raise HarnessFault('too many unspecified observations')
    if len(agg['outcomes']) < 6:
        raise HarnessFault('vacuous: fewer than 6 distinct outcomes')
    # self-test of the oracle: a perturbed observation must be flagged
    nodes, ns = build({'form': 'if', 'kinds': ['name', 'name'],
                       'truth': [0, 1], 'else': 1, 'reref': ['var', 1],
                       'syntax': 'dtml'})
    ref = harness.observe_ref(nodes, ns)
    impl = harness.observe_impl(nodes, ns)
    if harness.same(impl, ref):
        raise HarnessFault('self-test baseline disagrees')
    bad = dict(impl, log=impl['log'] + [['call', 1]])
    if harness.same(bad, ref) != 'calls':
        raise HarnessFault('self-test: extra call not detected')
    return {}
