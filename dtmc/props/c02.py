"""C02 - names resolve by documented source precedence; block bindings are
scoped.

Family src:   all 63 non-empty subsets of the six sources (call keyword,
              template var(), client object(s), call mapping, constructor
              keyword, constructor mapping) x client shape x value kind
              (plain / logging callable / document template) x lookup form.
Family scope: all nestings up to depth 3 (quick) / 4 (thorough) of the eight
              binders, each level rebinding the probe name or not, with a
              probe before, inside and after every block.
The expected trace (text + ordered call log) comes from the reference
namespace stack of dtmc/refsem.py.
"""

import itertools
import re

from .. import ast
from .. import refsem
from ..ast import E
from ..ast import N
from ..ast import T
from ..core import CaseTimeout
from ..core import HarnessFault
from ..core import Res
from ..probes import World

ID = 'C02'
LEVEL = 'model_checking'
MANIFEST = {
    'technique': 'exhaustive enumeration of source subsets and of binder '
                 'nestings; every program rendered on the real code and its '
                 'output + ordered call trace compared with a reference '
                 'namespace-stack model',
    'text': 'All 63 non-empty subsets of the six name sources x 4 client '
            'shapes x 3 value kinds x 5 lookup forms are rendered through '
            'String/HTML.__call__; all nestings up to depth 3 (quick) / 4 '
            '(thorough) of the binders {in, batched in, with, with mapping, '
            'with only, let (from an expression / from a name), if-by-name, try/except handler, sub-template '
            'with own defaults}, each level rebinding the probe name or '
            'not, carry a probe before, inside and after every block.  Text '
            'and call log must equal those of the reference stack model '
            '(states = stack configurations, transitions = push / pop / '
            'lookup).  Also: a client tuple naming one object twice; every '
            'nesting with a raising / returning core; the nestings as body '
            'of a template that invokes itself again from the innermost '
            'level (its defaults on top again); all pairs of sibling blocks '
            'with an outer value whose result changes on every call; the '
            'winning source whose value is None (defined, not missing); the '
            'source subsets once more with names spelled like builtins of '
            'the expression language (max, str, len) and with an '
            'underscore name.',
    'more': "Also: a winning source whose value is None; values that render themselves when given the namespace (__render_with_namespace__) and the expression-side spellings _.render(n), _['n'], _.getitem('n', 1); client tuples of 3 and 5 objects; the probe name spelled with capitals / digits / underscores; the tags written with tab, CR LF, form feed ... between their parts; a let tag whose name-form binding is followed by further bindings. A name-form condition that is false is remembered like a true one; names that begin like tags (variable, var1, iffy); the same template object called again without the keyword arguments.",
    'note': 'Trusted: dtmc/refsem.py (model namespace: a list of frames '
            'searched last-first; callables called on name lookup only; '
            'sub-templates rendered on the current stack with their '
            'defaults on top).',
}
RULE = ('family src: 63 subsets x client shapes {single, tuple-last, '
        'tuple-first, tuple-both} x kinds {plain, callable, template} x '
        'forms {var, call, call-expr, var-expr-call, entity}; family scope: '
        'all binder nestings to the depth bound.  A case is non-trivial '
        'when at least two sources / binders define the probe name.')
ASSUMPTIONS = ['client objects are plain attribute bags; the _ prefix rule '
               'is covered by C05']

SOURCES = ('kw', 'tvar', 'client', 'mapping', 'ckw', 'cmap')
FORMS = ('var', 'call', 'callexpr', 'varexprcall', 'entity', 'ifvar',
         'exprlambda', 'exprcomp', 'exprgen', 'renderexpr', 'subscriptexpr',
         'getitemexpr', 'getitem0expr')
BINDERS = ('in', 'inb', 'with', 'withmap', 'withonly', 'let', 'letn', 'letn2',
           'iffalse', 'lete',
           'if', 'elif', 'try', 'sub', 'subcl')
SYNTAXES = ('dtml', 'ssi', 'epfs')


FALSY = {'S-kw': 0, 'S-tvar': '', 'S-client': 0.0, 'S-client1': 0.5,
         'S-mapping': [], 'S-ckw': ['seq', 'tuple', []], 'S-cmap': False}


def value_spec(kind, marker):
    if kind == 'plain':
        return ['lit', marker]
    if kind == 'falsy':
        # every source defines the name with a different *false* value
        v = FALSY[marker]
        return v if isinstance(v, list) and v and v[0] == 'seq' \
            else ['lit', v]
    if kind == 'callable':
        return ['probe', marker, ['lit', marker]]
    if kind == 'rwn':
        return ['rwn', marker]
    if kind == 'nonetop':
        # the winning source defines the name, with the value None
        return ['lit', None]
    if kind in ('raiseK', 'raiseN'):
        # a callable whose own body fails with a KeyError / NameError about
        # something else: that is its failure, not "name not defined here"
        return ['raiser', marker, 'KeyError' if kind == 'raiseK'
                else 'NameError', 'elsewhere']
    # a document template that shows whom it sees
    return ['tmpl', [T('<' + marker + ':'),
                     ['var', N('who'), [['missing', '-']]],
                     ['var', N('own'), [['missing', '-']]], T('>')],
            {'own': ['lit', 'own-' + marker]}]


def lookup_nodes(form):
    if form == 'var':
        return [['var', N('n'), []]]
    if form == 'call':
        return [['call', N('n')], T('.')]
    if form == 'callexpr':
        return [['call', E('n')], T('.')]
    if form == 'varexprcall':
        return [['var', E('n()'), []]]
    # the ways an expression can ask for what a tag would insert
    if form == 'renderexpr':
        return [['var', E('_.render(n)'), []]]
    if form == 'subscriptexpr':
        return [['var', E("_['n']"), []]]
    if form == 'getitemexpr':
        return [['var', E("_.getitem('n', 1)"), []]]
    if form == 'getitem0expr':
        return [['var', E("_.render(_.getitem('n', 0))"), []]]
    if form == 'entity':
        return [['var', N('n'), [['html_quote', None]]]]
    # expressions in which the probe name is free *and* the name of a
    # lambda argument / comprehension variable
    if form == 'exprlambda':
        return [['var', E('(lambda n: n)(n)'), []]]
    if form == 'exprcomp':
        return [['var', E('[n for n in (n, n)][1]'), []]]
    if form == 'exprgen':
        return [['var', E("'+'.join(n for n in (n,)) + n"), []]]
    return [['if', [[N('n'), [['var', N('n'), []]]]], [T('F')]]]


def cases(tier):
    idx = 0
    for k in range(1, 7):
        for sub in itertools.combinations(SOURCES, k):
            shapes = ('single', 'last', 'first', 'both', 'repeat', 'falsy',
                      'falsy-last', 'middle', 'mid-first', 'fourth') \
                if 'client' in sub else ('none',)
            for shape in shapes:
                for kind in ('plain', 'callable', 'template', 'falsy', 'rwn'):
                    for form in FORMS:
                        if kind == 'falsy' and form not in (
                                'var', 'entity', 'ifvar'):
                            continue
                        if form == 'varexprcall' and kind not in (
                                'callable', 'rwn'):
                            continue
                        if form.startswith('expr') and kind != 'plain':
                            continue
                        if kind == 'rwn' and shape not in (
                                'single', 'last', 'none'):
                            continue
                        idx += 1
                        yield {'fam': 'src', 'sources': list(sub),
                               'shape': shape, 'kind': kind, 'form': form,
                               'syntax': SYNTAXES[idx % 3]}
    # the value of the winning source is a callable that fails
    for k in range(2, 7):
        for sub in itertools.combinations(SOURCES, k):
            for kind in ('raiseK', 'raiseN', 'nonetop'):
                for form in ('var', 'call', 'entity', 'ifvar'):
                    for shape in (('single', 'last') if 'client' in sub
                                  else ('none',)):
                        idx += 1
                        yield {'fam': 'src', 'sources': list(sub),
                               'shape': shape, 'kind': kind, 'form': form,
                               'syntax': SYNTAXES[idx % 3]}
    # the same with a name that is also the name of a builtin the
    # expression language offers (as _.max, _.str, ...): an ordinary name
    for name in ('max', 'str', 'len', '_n', 'Title', 'itemCount', 'variable',
                 'var1', 'inn', 'iffy', 'elsewhere', 'end'):
        for k in range(1, 7):
            for sub in itertools.combinations(SOURCES, k):
                for kind in ('plain', 'callable'):
                    for form in ('var', 'callexpr', 'varexprcall', 'ifvar',
                                 'exprlambda', 'exprgen'):
                        if form == 'varexprcall' and kind != 'callable':
                            continue
                        if form.startswith('expr') and kind != 'plain':
                            continue
                        idx += 1
                        yield {'fam': 'src', 'sources': list(sub),
                               'shape': 'single' if 'client' in sub
                               else 'none', 'kind': kind, 'form': form,
                               'name': name, 'syntax': SYNTAXES[idx % 3]}
    depth = 3 if tier == 'quick' else 4
    levels = [(b, r) for b in BINDERS for r in (0, 1)]
    # two sibling blocks: what the first one bound (or cached) is gone in
    # the second; with ncall the outer value is a callable whose result
    # changes with every call, so a stale cached value is visible
    for a in levels:
        # every single block with an outer value that changes on every call
        idx += 1
        yield {'fam': 'scope', 'nest': [list(a)], 'ncall': 1,
               'syntax': SYNTAXES[idx % 3]}
    for a in levels:
        for b in levels:
            for ncall in (0, 1):
                idx += 1
                yield {'fam': 'scope', 'nest': [list(a)], 'sib': [list(b)],
                       'ncall': ncall, 'syntax': SYNTAXES[idx % 3]}
    # the tags written with other white space between their parts (tab,
    # CR LF, form feed, ...): every single block and every pair
    for ws in (2, 4, 5, 6, 7, 8, 9):
        for d in (1, 2):
            for nest in itertools.product(range(len(levels)), repeat=d):
                if d == 2 and (ws not in (5, 6) or not (
                        levels[nest[0]][1] and levels[nest[1]][1])):
                    continue
                idx += 1
                yield {'fam': 'scope', 'nest': [list(levels[i]) for i in nest],
                       'ws': ws, 'syntax': SYNTAXES[idx % 3]}
    # the probe name spelled with capitals / an underscore inside / digits:
    # a name is a name (every single block and every pair of nested blocks)
    for name in ('Nm', 'itemCount', 'N', 'n_2'):
        for d in (1, 2):
            for nest in itertools.product(range(len(levels)), repeat=d):
                if d == 2 and not (levels[nest[0]][1] or levels[nest[1]][1]):
                    continue
                if d == 2 and name not in ('Nm',):
                    continue
                idx += 1
                yield {'fam': 'scope', 'nest': [list(levels[i]) for i in nest],
                       'name': name, 'syntax': SYNTAXES[idx % 3]}
    for d in range(1, depth + 1):
        for nest in itertools.product(range(len(levels)), repeat=d):
            if d == 4 and tier == 'thorough':
                # depth 4: the two outer levels run over all binders, the
                # two inner ones over rebinding levels only
                if not (levels[nest[2]][1] and levels[nest[3]][1]):
                    continue
            idx += 1
            yield {'fam': 'scope', 'nest': [list(levels[i]) for i in nest],
                   'syntax': SYNTAXES[idx % 3]}
            if d <= (2 if tier == 'quick' else 3) and \
                    not any(levels[i][0] == 'withonly' for i in nest):
                # the blocks are the body of a template T (own default for
                # the probe name) whose innermost level invokes T again:
                # the re-entrant call sees its defaults on top of whatever
                # the blocks in between have bound
                idx += 1
                yield {'fam': 'scope', 'how': 'reenter',
                       'nest': [list(levels[i]) for i in nest],
                       'syntax': SYNTAXES[idx % 3]}
            if d <= 3:
                # the innermost body raises / returns; an enclosing try (or
                # the calling template) goes on: nothing may stay bound
                for how in ('raise', 'return'):
                    idx += 1
                    yield {'fam': 'scope', 'how': how,
                           'nest': [list(levels[i]) for i in nest],
                           'syntax': SYNTAXES[idx % 3]}


# ---------------------------------------------------------------- src

def build_src(case):
    kind, shape = case['kind'], case['shape']
    spec = {}
    for s in case['sources']:
        spec[s] = value_spec(kind, 'S-' + s)
    if kind in ('raiseK', 'raiseN', 'nonetop'):
        # only the winning source raises (or is None); the others define
        # plain values
        top = min(case['sources'], key=SOURCES.index)
        for s in case['sources']:
            if s != top:
                spec[s] = value_spec('plain', 'S-' + s)
    parts = {'ctor_mapping': {'other': ['lit', 'o']},
             'ctor_kw': {'who': ['lit', 'WHO']},
             'mapping': {}, 'clients': [], 'tvars': {}, 'kw': {}}
    if 'cmap' in spec:
        parts['ctor_mapping']['n'] = spec['cmap']
        parts['ctor_mapping']['_hidden'] = ['lit', 'H']
    if 'ckw' in spec:
        parts['ctor_kw']['n'] = spec['ckw']
    if 'mapping' in spec:
        parts['mapping']['n'] = spec['mapping']
    if 'tvar' in spec:
        parts['tvars']['n'] = spec['tvar']
    if 'kw' in spec:
        parts['kw']['n'] = spec['kw']
    if 'client' in spec:
        first = value_spec(kind, 'S-client1')
        if shape in ('single', 'falsy'):
            parts['clients'] = [{'n': spec['client']}]
        elif shape == 'falsy-last':
            parts['clients'] = [{'zz': ['lit', 1]}, {'n': spec['client']}]
        elif shape == 'last':
            parts['clients'] = [{'zz': ['lit', 1]}, {'n': spec['client']}]
        elif shape == 'first':
            parts['clients'] = [{'n': spec['client']}, {'zz': ['lit', 1]}]
        elif shape == 'middle':
            # three clients, only the one in the middle defines the name
            parts['clients'] = [{'zz': ['lit', 1]}, {'n': spec['client']},
                                {'yy': ['lit', 2]}]
        elif shape == 'mid-first':
            # the first and the middle one define it: the middle one wins
            parts['clients'] = [{'n': first}, {'n': spec['client']},
                                {'yy': ['lit', 2]}]
        elif shape == 'fourth':
            # five clients; the fourth wins over the second
            parts['clients'] = [{'zz': ['lit', 1]}, {'n': first},
                                {'yy': ['lit', 2]}, {'n': spec['client']},
                                {'xx': ['lit', 3]}]
        elif shape == 'repeat':
            # the tuple (a, b, a): the same object again in the last place
            parts['clients'] = [{'n': spec['client']}, {'n': first}]
            parts['repeat'] = {}
        else:
            parts['clients'] = [{'n': first}, {'n': spec['client']}]
    if shape.startswith('falsy'):
        parts['client_kind'] = 'fobj'
    nodes = [T('[')] + lookup_nodes(case['form']) + [T(']')]
    if case.get('name'):
        nodes = rename(nodes, case['name'])
        for part in parts.values():
            if isinstance(part, dict) and 'n' in part:
                part[case['name']] = part.pop('n')
        parts['clients'] = [rename_keys(c, case['name'])
                            for c in parts['clients']]
    return nodes, parts


def rename_keys(d, name):
    return {(name if k == 'n' else k): v for k, v in d.items()}


def rename(node, name):
    """the probe name n written as another name, in tags and expressions"""
    if isinstance(node, list):
        if len(node) == 2 and node[0] == 'n' and node[1] == 'n':
            return ['n', name]
        if len(node) == 2 and node[0] == 'e' and isinstance(node[1], str):
            return ['e', re.sub(r'\bn\b', name, node[1])]
        return [rename(x, name) for x in node]
    return node


def observe_src_impl(nodes, parts, syntax, single_client, again=None):
    w = World('impl', syntax)
    b = {k: ({a: w.build(v) for a, v in parts[k].items()}
             if isinstance(parts[k], dict) else None) for k in parts}
    clients = [w.build([parts.get('client_kind', 'obj'), c])
               for c in parts['clients']]
    if 'repeat' in parts:
        clients = [clients[0], clients[1], clients[0]]
    cls = ast.template_class(syntax)
    src = ast.to_source(nodes, syntax)
    try:
        t = cls(src, b['ctor_mapping'], **b['ctor_kw'])
        if b['tvars']:
            t.var(**b['tvars'])
        if not clients:
            client = None
        elif single_client:
            client = clients[0]
        else:
            client = tuple(clients)
        r = t(client, b['mapping'], **b['kw'])
        out = ['ok', r if isinstance(r, str) else repr(r)]
        if again is not None:
            # the same template object called once more without the
            # keyword arguments: what one call was given is gone
            try:
                r2 = t(client, b['mapping'])
                again.append(['ok', r2 if isinstance(r2, str) else repr(r2)])
            except CaseTimeout:
                raise
            except Exception as e:
                again.append(['exc', type(e).__name__])
    except CaseTimeout:
        raise
    except Exception as e:
        out = ['exc', type(e).__name__]
    return out, w.log, src


def observe_src_ref(nodes, parts):
    w = World('ref')
    b = {k: ({a: w.build(v) for a, v in parts[k].items()}
             if isinstance(parts[k], dict) else None) for k in parts}
    clients = [w.build([parts.get('client_kind', 'obj'), c])
               for c in parts['clients']]
    if 'repeat' in parts:
        clients = [clients[0], clients[1], clients[0]]
    interp = refsem.Interp()
    try:
        r = interp.call_top(nodes, ctor_mapping=b['ctor_mapping'],
                            ctor_kw=b['ctor_kw'], mapping=b['mapping'],
                            clients=clients, tvars=b['tvars'], kw=b['kw'])
        out = ['ok', r if isinstance(r, str) else repr(r)]
    except CaseTimeout:
        raise
    except Exception as e:
        out = ['exc', type(e).__name__]
    return out, w.log, interp.unspec


# ---------------------------------------------------------------- scope

PROBE_ID = [0]


def probe(label):
    return [T('[%s:' % label), ['var', N('n'), [['missing', '-']]], T(';'),
            ['var', N('error_type'), [['missing', '-']]], T(']')]


def deep_rename(x, new):
    """the probe name n spelled differently everywhere: references, let
    binders, attribute / mapping keys, expression texts"""
    if isinstance(x, dict):
        return {(new if k == 'n' else k): deep_rename(v, new)
                for k, v in x.items()}
    if isinstance(x, list):
        if len(x) == 2 and x[0] == 'n' and isinstance(x[1], str):
            return ['n', new if x[1] == 'n' else x[1]]       # a name ref
        if len(x) == 2 and x[0] == 'n' and isinstance(x[1], list):
            return [new, deep_rename(x[1], new)]             # a let binder
        if len(x) == 2 and x[0] == 'e' and isinstance(x[1], str):
            return ['e', re.sub(r'\bn\b', new, x[1])]
        if len(x) == 2 and x[0] == 'lit':
            return x
        return [deep_rename(y, new) for y in x]
    return x


def build_scope(case):
    if case.get('name'):
        nodes, ns = build_scope(dict(case, name=None))
        return deep_rename(nodes, case['name']), \
            deep_rename(ns, case['name'])
    ns = {'n': ['lit', 'OUT'], 'm0': ['lit', 'M']}
    counter = [0]

    how = case.get('how')

    def level(i, nest):
        if i == len(nest):
            if how == 'raise':
                ns['coreboom'] = ['raiser', 'coreboom', 'HC', 'core']
                return probe('core') + [['var', N('coreboom'), []]]
            if how == 'return':
                return probe('core') + [['return', N('m0')]]
            if how == 'reenter':
                return probe('core') + [
                    ['unless', N('stop'),
                     [['let', [['stop', E('1')]], [['var', N('T'), []]]]]]]
            return probe('core')
        kind, rebind = nest[i]
        counter[0] += 1
        k = counter[0]
        name = 'n' if rebind else 'q%d' % k
        marker = 'L%d' % k
        before = set(ns)
        inner = probe('in%d' % k) + level(i + 1, nest) + probe('out%d' % k)
        deeper = {a: ns[a] for a in ns if a not in before}
        if kind in ('in', 'inb'):
            ns['seq%d' % k] = ['seq', 'list', [['obj', {name: ['lit',
                                                              marker]}]]]
            opts = [['size', '1'], ['start', '1']] if kind == 'inb' else []
            node = ['in', N('seq%d' % k), inner, None, opts]
        elif kind == 'with':
            ns['obj%d' % k] = ['obj', {name: ['lit', marker]}]
            node = ['with', N('obj%d' % k), inner, []]
        elif kind == 'withmap':
            ns['map%d' % k] = ['map', {name: ['lit', marker]}]
            node = ['with', N('map%d' % k), inner, ['mapping']]
        elif kind == 'withonly':
            # "only" hides the whole outer namespace: what deeper levels
            # need must come from the object itself
            attrs = {name: ['lit', marker]}
            attrs.update(deeper)
            ns['obj%d' % k] = ['obj', attrs]
            node = ['with', N('obj%d' % k), inner, ['only']]
        elif kind == 'let':
            node = ['let', [[name, E("'%s'" % marker)]], inner]
        elif kind == 'letn':
            # bound from another (longer) name, next to a second binding
            ns['letsrc%d' % k] = ['lit', marker]
            node = ['let', [['other%d' % k, E('1 + 1')],
                            [name, N('letsrc%d' % k)]], inner]
        elif kind == 'iffalse':
            # a name-form condition that is *false* is remembered like a true
            # one: in the else section the name is that value, not a new call
            # of a callable whose result changes
            ns['f%d' % k] = ['probeseq', 'f%d' % k,
                             [['lit', ''], ['lit', 'X1'], ['lit', 'X2']]]
            cname = 'f%d' % k
            node = ['if', [[N(cname), [T('then')]]],
                    [T('<'), ['var', N(cname), []],
                     ['if', [[N(cname), [T('again-true')]]],
                      [T('still-false')]], T('>')] + inner]
            if rebind:
                node = ['if', [[E('0'), [T('never')]],
                               [N(cname), [T('then')]]],
                        [['unless', N(cname), [T('u')]],
                         ['var', N(cname), []]] + inner]
        elif kind == 'letn2':
            # the name-form binding first, two more behind it
            ns['letsrc%d' % k] = ['lit', marker]
            node = ['let', [[name, N('letsrc%d' % k)],
                            ['other%d' % k, N('letsrc%d' % k)],
                            ['third%d' % k, E('other%d' % k)]], inner]
        elif kind == 'if':
            # caches the value of a callable under its name
            ns['c%d' % k] = ['probe', 'c%d' % k, ['lit', marker]]
            cname = 'c%d' % k
            inner2 = [['var', N(cname), []]] + inner
            node = ['if', [[N(cname), inner2]], None]
            if rebind:
                # the conditional tests (and so caches) the probe name itself
                ns['n'] = ns.get('n')
                node = ['if', [[N('n'), inner]], [T('else')]]
        elif kind == 'lete':
            # bound from an expression that is one bare identifier naming a
            # callable: the callable itself is bound (uncalled) and is
            # called whenever the let variable is looked up by name
            ns['letfn%d' % k] = ['probe', 'lf%d' % k, ['lit', marker]]
            node = ['let', [[name, E('letfn%d' % k)]], inner]
        elif kind == 'elif':
            # the remembered value comes from a name-form elif behind a
            # false expression-form if
            ns['c%d' % k] = ['probe', 'c%d' % k, ['lit', marker]]
            cname = 'n' if rebind else 'c%d' % k
            inner2 = inner if rebind else [['var', N(cname), []]] + inner
            node = ['if', [[E('0'), [T('never')]], [N(cname), inner2]],
                    [T('else')]]
        elif kind == 'try':
            ns['boom%d' % k] = ['raiser', 'boom%d' % k, 'HB', 'x']
            node = ['try', [T('t'), ['var', N('boom%d' % k), []]],
                    [[['HA'], inner]], None]
        elif kind == 'subcl':
            # a template called from an expression on the current namespace
            # with a tuple of two client objects (the last one binds the
            # name, over the template's own default) and a keyword
            ns['sub%d' % k] = ['tmpl', inner, {name: ['lit', 'D' + marker]}]
            ns['ca%d' % k] = ['obj', {'zz%d' % k: ['lit', 1]}]
            ns['cb%d' % k] = ['obj', {name: ['lit', marker]}]
            node = ['var', E('sub%d((ca%d, cb%d), _, kwx%d=1)'
                             % (k, k, k, k)), []]
        else:
            sub = ['tmpl', inner, {name: ['lit', marker]}]
            ns['sub%d' % k] = sub
            node = ['var', N('sub%d' % k), []]
        return [node]

    body = level(0, case['nest'])
    if case.get('sib'):
        body = body + probe('mid') + level(0, case['sib'])
    if case.get('ncall'):
        ns['n'] = ['probeseq', 'n', [['lit', 'OUT%d' % i] for i in range(40)]]
    if how == 'raise':
        body = [['try', body, [[['HC'], probe('caught')]], None]]
    elif how == 'return':
        # the blocks live in a sub-template; its dtml-return ends only it
        ns['wrapped'] = ['tmpl', body, {}]
        body = [['var', N('wrapped'), []]]
    elif how == 'reenter':
        ns['T'] = ['tmpl', probe('T0') + body + probe('T1'),
                   {'n': ['lit', 'Tdef']}]
        body = [['var', N('T'), []]]
    nodes = probe('pre') + body + probe('post')
    return nodes, ns


def observe(nodes, ns, syntax, mode):
    w = World(mode, syntax)
    built = w.build_ns(ns)
    unspec = False
    try:
        if mode == 'impl':
            src = ast.to_source(nodes, syntax)
            r = ast.template_class(syntax)(src)(**built)
        else:
            interp = refsem.Interp()
            r = interp.call_top(nodes, kw=built)
            unspec = interp.unspec
        out = ['ok', r if isinstance(r, str) else repr(r)]
    except CaseTimeout:
        raise
    except Exception as e:
        out = ['exc', type(e).__name__]
    return out, w.log, unspec


def run(case):
    ast.DEFAULT_STYLE['ws'] = case.get('ws', 0)
    try:
        return run_(case)
    finally:
        ast.DEFAULT_STYLE['ws'] = 0


def run_(case):
    res = Res()
    if case['fam'] == 'src':
        nodes, parts = build_src(case)
        single = case['shape'] in ('single', 'falsy')
        again = [] if ('kw' in case['sources'] and case['kind'] == 'plain'
                       and len(case['sources']) > 1) else None
        io, ilog, src = observe_src_impl(nodes, parts, case['syntax'], single,
                                         again)
        ro, rlog, unspec = observe_src_ref(nodes, parts)
        if again:
            p2 = dict(parts, kw={})
            r2, _l2, u2 = observe_src_ref(nodes, p2)
            if not u2 and again[0] != r2:
                res.violate('resolution', 'src:%s:%s:second-call' % (
                    case['kind'], case['form']),
                    {'source': src, 'second call without keywords': again[0],
                     'model': r2})
        n_def = len(case['sources']) + (case['shape'] in (
            'both', 'repeat', 'mid-first', 'fourth'))
        tag = 'src:%s:%s' % (case['kind'], case['form'])
    else:
        nodes, ns = build_scope(case)
        io, ilog, _ = observe(nodes, ns, case['syntax'], 'impl')
        ro, rlog, unspec = observe(nodes, ns, case['syntax'], 'ref')
        src = ast.to_source(nodes, case['syntax'])
        n_def = 1 + sum(1 for b, r in case['nest'] if r)
        tag = 'scope%s:%s' % ('-' + case['how'] if case.get('how') else '',
                              '>'.join(b for b, r in case['nest']))
        if case.get('sib'):
            tag += '+' + '>'.join(b for b, r in case['sib'])
    if unspec:
        res.outcome = 'unspec'
        return res
    res.states = 1 + len(rlog) + ro[1].count('[') if ro[0] == 'ok' else 1
    res.transitions = res.states
    res.traces = 1
    res.nontrivial = n_def >= 2
    res.outcome = '%s:%s' % (case['fam'], ro[0])
    if io != ro:
        res.violate('resolution', tag + ':value',
                    {'source': src, 'impl': io, 'model': ro,
                     'impl_calls': ilog, 'model_calls': rlog})
    elif ilog != rlog:
        res.violate('calls', tag + ':calls',
                    {'source': src, 'impl_calls': ilog, 'model_calls': rlog,
                     'value': io})
    return res


def finalize(tier, agg):
    if agg['outcomes'].get('unspec', 0) > agg['cases'] // 20:
        raise HarnessFault('too many unspecified observations')
    if agg['outcomes'].get('scope:ok', 0) < 1000 or \
            agg['outcomes'].get('src:ok', 0) < 1000:
        raise HarnessFault('vacuous: too few rendered programs')
    # model self-test: kw beats client beats ctor mapping
    nodes, parts = build_src({'kind': 'plain', 'shape': 'single',
                              'sources': ['kw', 'client', 'cmap'],
                              'form': 'var'})
    ro, _, _ = observe_src_ref(nodes, parts)
    if ro != ['ok', '[S-kw]']:
        raise HarnessFault('self-test: precedence model %r' % (ro,))
    return {}
