"""C07 - the three surface syntaxes of a template compile and render
identically.

Every abstract program of the table below is printed in dtml / SSI / EPFS
syntax under a set of printer styles (blanks, quoting, end-tag arguments,
SSI end spelling, expr= keyword, newline after block tags); all variants are
compiled and (a) the object-graph fingerprints of the compiled blocks must be
equal, (b) rendering with three namespaces of logging callables must give
the same text / exception / call log.  Entity forms are compared with their
dtml-var equivalents.
"""

import itertools

from .. import ast
from ..ast import E
from ..ast import N
from ..ast import T
from ..core import CaseTimeout
from ..core import HarnessFault
from ..core import Res
from ..fingerprint import digest
from ..fingerprint import fingerprint
from ..fingerprint import first_difference
from ..probes import World

ID = 'C07'
LEVEL = 'translation_validation'
MANIFEST = {
    'technique': 'exhaustive enumeration of abstract programs over the full '
                 'tag/attribute table (attributes singly and in pairs, each '
                 'tag nested in every block kind) x 3 syntaxes x printer '
                 'styles; pairwise structural comparison of the compiled '
                 'block trees plus differential rendering',
    'text': 'For every abstract program (every tag with each attribute '
            'singly and in pairs, chains, and each tag nested inside every '
            'block kind; thorough: also every ordered pair of top-level '
            'programs) the dtml, SSI and EPFS printings in 10 (quick) / 24 '
            '(thorough) styles are compiled on the real code: the compiled '
            'block trees must be structurally identical (object-graph '
            'fingerprint), and rendering over three namespaces with logging '
            'callables must agree in text, exception class+message and call '
            'log.  &dtml-x; is compared with <dtml-var x html_quote>, '
            '&dtml.m1.m2-x; with <dtml-var x m1 m2>.  Family spelling: '
            'if / in / unless / with x 6 spellings of the start argument x '
            '7 of an else argument x 4 of the end-tag argument, in three '
            'syntaxes: all three accept (same program, same renderings) or '
            'all three reject.',
    'more': 'Also: entity references with zero, three and repeated modifiers; tags far longer than a line (expressions of up to 600 terms, long attribute values, many attributes); white-space styles tab / CR LF / form feed / CR / vertical tab / \\x1f between the parts of a tag; 72 malformed templates that must be refused for the same reason in every spelling.',
    'note': 'Trusted: the printers of dtmc/ast.py (they define what "the '
            'same template in another syntax" means) and dtmc/fingerprint.py '
            '(fine-grained; blanks inside the raw dtml-let argument text are '
            'normalised).  Parse-error messages are compared up to the tag '
            'text they quote.',
}
RULE = ('programs = the table in this driver (var/call/return/if/unless/in/'
        'with/let/try/raise/comment with every attribute singly and in '
        'pairs, nested once in every block kind); variants = 3 syntaxes x '
        'styles.  A program is non-trivial when it compiles to at least one '
        'non-text block; "disagreements_checked" counts variant pairs '
        'compared.')
ASSUMPTIONS = ['C-style formats other than "s" exist in EPFS only and are '
               'not part of the equivalence']
CASE_CPU_SECONDS = 120.0
CASE_CPU_SECONDS_QUICK = 10.0

MODS = ['html_quote', 'url_quote', 'url_quote_plus', 'url_unquote',
        'url_unquote_plus', 'newline_to_br', 'lower', 'upper', 'capitalize',
        'spacify', 'thousands_commas', 'sql_quote']
VAR_ATTRS = [['fmt', 'upper'], ['fmt', 'collection-length'], ['null', 'N'],
             ['missing', 'M'], ['size', '3'], ['etc', '~'], ['url', None]] + \
            [[m, None] for m in MODS]
IN_ATTRS = [['mapping', None], ['no_push_item', None],
            ['skip_unauthorized', None], ['sort', 'k'], ['sort', 'k/desc,j'],
            ['reverse', None], ['prefix', 'p'], ['start', '2'],
            ['start', 'qs'], ['size', '2'], ['end', '3'], ['orphan', '1'],
            ['overlap', '1'], ['previous', None], ['next', None],
            ['sort_expr', 'sk'], ['reverse_expr', 'rv']]

BODY = [T('['), ['var', N('x'), []], T(']')]
IN_BODY = [T('('), ['var', N('sequence-item'), []], T(','),
           ['var', N('sequence-index'), []], T(')')]


def singles_and_pairs(attrs):
    yield []
    for a in attrs:
        yield [a]
    for a, b in itertools.combinations(attrs, 2):
        if a[0] == b[0]:
            continue
        yield [a, b]


def simple_programs():
    """(label, nodes)"""
    for ref in (N('x'), E('x')):
        for opts in singles_and_pairs(VAR_ATTRS):
            yield 'var', [T('a'), ['var', ref, opts], T('b')]
    # unquoted values that end in '/' (also as the last thing in the tag)
    for opts in ([['missing', 'a/']], [['null', '-'], ['missing', '/']],
                 [['missing', 'a/'], ['size', '3']],
                 [['size', '1'], ['etc', '/']], [['fmt', 'a/b/']]):
        for ref in (N('u'), N('x')):
            yield 'var', [T('a'), ['var', ref, opts], T('b')]
    # variables that are called like tags
    for name in ('comment', 'return', 'if', 'in', 'else', 'call', 'with',
                 'let', 'try', 'raise', 'unless', 'end'):
        for opts in ([], [['upper', None]], [['missing', 'M']]):
            yield 'var', [T('a'), ['var', N(name), opts], T('b')]
    # ... and a variable that is called var (HTML syntaxes: %(var upper)s is
    # the explicit spelling of the var tag for a variable called upper)
    for opts in ([], [['upper', None]], [['missing', 'M']]):
        yield 'var-named-var', [T('a'), ['var', N('var'), opts], T('b')]
    yield 'call', [['call', N('x')], T('t')]
    yield 'call', [['call', E('x()')], T('t')]
    yield 'return', [T('a'), ['return', N('x')], T('b')]
    yield 'return', [T('a'), ['return', E('[1, x]')], T('b')]
    refs = (N('x'), E('y'), N('u'), E('x and y'))
    for n in (1, 2, 3):
        for rs in itertools.product(refs, repeat=n):
            for els in (None, [T('E')]):
                yield 'if', [['if', [[r, [T('B%d' % i)] + BODY]
                                     for i, r in enumerate(rs)], els]]
    # expressions with characters that end a tag when read outside quotes
    for r in (E('x > y'), E('y < x or (x)'), E("x >= 1 and ')' != x")):
        yield 'if', [['if', [[r, BODY]], [T('E')]]]
        yield 'if', [['if', [[N('u'), BODY], [r, [T('B')]]], None]]
        yield 'unless', [['unless', r, BODY]]
        yield 'with', [['with', E('obj if x > 0 else mp'), BODY, []]]
        yield 'in', [['in', E('seq[:(1 > 0) + 1]'), IN_BODY, [T('E')], []]]
    for r in refs:
        yield 'unless', [['unless', r, BODY]]
    for ref in (N('seq'), E('seq')):
        for opts in singles_and_pairs(IN_ATTRS):
            for els in (None, [T('E')]):
                yield 'in', [['in', ref, IN_BODY, els, opts]]
    for ref in (N('obj'), E('obj'), N('mp'), E('mp')):
        for flags in ([], ['mapping'], ['only'], ['mapping', 'only']):
            yield 'with', [['with', ref, [['var', N('oa'),
                                           [['missing', '-']]]] + BODY,
                            flags]]
    for binds in ([['a', N('x')]], [['a', E('x')]],
                  [['a', N('x')], ['b', E('a')]],
                  [['a', E('1')], ['b', N('a')], ['c', E('a + b')]]):
        yield 'let', [['let', binds, [['var', N('a'), []]] + BODY]]
    hsets = ([[['KeyError'], [T('h1')]]],
             [[[], [T('h')]]],
             [[['KeyError', 'HA'], [T('h1')]], [['HB'], [T('h2')]],
              [[], [T('h3')]]])
    for body in ([T('t')], [['var', N('boom'), []]], [['var', N('u'), []]]):
        for hs in hsets:
            for els in (None, [T('E')]):
                yield 'try', [['try', body, hs, els]]
        yield 'try', [['tryf', body, [T('F'), ['var', N('x'), []]]]]
    for tref in (['t', 'KeyError'], ['t', 'Nonesuch'], ['e', 'HAc'],
                 ['e', 'u']):
        yield 'raise', [['raise', tref, [T('m')] + BODY]]
    yield 'comment', [T('a'), ['comment', [T('c')] + BODY], T('b')]
    # literal text that looks like the beginning of an entity reference,
    # before, between and after real tags (with and without a later ';')
    for frag in ('AT&dtml-T ', '&dtml.a b', 'x &dtml- y', '&dtml-', '&dtml',
                 '&dtml.upper-;', '&dtml.upper-', '&dtml..x;', '&dtml.-;'):
        for tail in ('', ' ; ', ';'):
            yield 'neartag', [T(frag), ['var', N('x'), []], T(tail),
                              ['var', N('y'), [['upper', None]]], T(frag)]
            yield 'neartag', [T(frag), ['if', [[N('x'), [T('t' + frag)]]],
                                        [T('e')]], T(tail)]
            yield 'neartag', [['in', N('seq'), [T(frag), ['var', N('k'), []],
                                                T(tail)], None, []], T(frag)]


BLOCK_WRAPPERS = [
    lambda p: ['if', [[N('x'), p]], [T('E')]],
    lambda p: ['if', [[N('u'), [T('n')]]], p],
    lambda p: ['unless', N('u'), p],
    lambda p: ['in', N('seq'), p, None, []],
    lambda p: ['in', N('seq'), p, None, [['size', '2'], ['start', '2']]],
    lambda p: ['in', N('empty'), [T('n')], p, []],
    lambda p: ['with', N('obj'), p, []],
    lambda p: ['let', [['a', N('x')]], p],
    lambda p: ['try', p, [[[], [T('h')]]], None],
    lambda p: ['try', [['var', N('boom'), []]], [[['HA'], p]], None],
    lambda p: ['try', [T('t')], [[[], [T('h')]]], p],
    lambda p: ['tryf', p, [T('F')]],
    lambda p: ['tryf', [T('t')], p],
    lambda p: ['raise', ['e', 'HAc'], p],
    lambda p: ['comment', p],
]


def nest_subset():
    """one representative per tag kind and attribute (not the pairs)"""
    seen = {}
    for label, nodes in simple_programs():
        key = label
        if label in ('var', 'in'):
            tag = [n for n in nodes if n[0] == label][0]
            opts = tag[2] if label == 'var' else tag[4]
            if len(opts) > 1:
                continue
            key = (label, tuple(opts[0]) if opts else None, tag[1][0])
        elif label in seen and seen[label] >= 4:
            continue
        if isinstance(key, str):
            seen[key] = seen.get(key, 0) + 1
        yield label, nodes


def entity_programs():
    """the same program with an entity reference / with its dtml-var
    equivalent, in every position relative to a block: (label, A, B)"""
    forms = [(['ent', 'x', ['html_quote']],
              ['var', N('x'), [['html_quote', None]]]),
             (['ent', 'x', ['upper', 'url_quote']],
              ['var', N('x'), [['upper', None], ['url_quote', None]]])]
    for wi, w in enumerate(BLOCK_WRAPPERS):
        for fi, (ent, var) in enumerate(forms):
            for pos in ('before', 'inside', 'after', 'inside+after',
                        'after-two'):
                out = []
                for x in (ent, var):
                    inner = [T('i'), x] if 'inside' in pos else [T('i')]
                    blk = w(inner)
                    if pos == 'before':
                        nodes = [x, blk, T('t')]
                    elif pos == 'inside':
                        nodes = [blk, T('t')]
                    elif pos == 'after-two':
                        nodes = [blk, w([T('j')]), x, T('t'), x]
                    else:
                        nodes = [blk, x, T('t')]
                    out.append(nodes)
                yield 'entity-ctx:%d:%d:%s' % (wi, fi, pos), out[0], out[1]


def long_programs():
    """scale: tags far longer than a line -- long expressions, long
    attribute values, many attributes, long names"""
    for n in (3, 9, 12, 20, 40, 120, 600):
        ex = ' + '.join(['y'] * n)
        yield 'long', [T('a'), ['var', E(ex), [['html_quote', None]]], T('b')]
        yield 'long', [['if', [[E(ex + ' > 0'), BODY]], [T('E')]]]
        yield 'long', [['in', E('seq[:1 + %s - (%s)]' % (ex, ex)), IN_BODY,
                        None, [['sort', 'k'], ['reverse', None]]]]
        yield 'long', [['let', [['a', E(ex)], ['b', E('a + ' + ex)]],
                        [['var', N('b'), []]]]]
        yield 'long', [['with', E('obj if %s >= 0 else mp' % ex), BODY, []]]
        yield 'long', [['unless', E(ex), BODY]]
        yield 'long', [T('a'), ['var', N('u'), [['missing', 'm' * n * 4],
                                                ['size', '7'], ['etc', '~']]],
                       T('b')]
        yield 'long', [T('a'), ['return', E('[%s]' % ex)], T('b')]
    name = 'v' * 90
    yield 'long', [['let', [[name, E('x')]], [['var', N(name), []]]]]
    yield 'long', [T('a'), ['var', N('x'), [[m, None] for m in
                                            ('lower', 'upper', 'capitalize',
                                             'spacify', 'thousands_commas',
                                             'url_quote', 'url_quote_plus',
                                             'sql_quote', 'newline_to_br',
                                             'html_quote')] +
                            [['null', 'N'], ['size', '30'], ['etc', '~']]],
                   T('b')]
    yield 'long', [['in', N('seq'), IN_BODY, [T('E')],
                    [['sort', 'k'], ['reverse', None], ['start', '1'],
                     ['size', '2'], ['orphan', '0'], ['overlap', '0'],
                     ['prefix', 'p'], ['skip_unauthorized', None]]]]


ERR_BLOCKS = [('if', 'x'), ('in', 's'), ('with', 'o'), ('let', 'a=b'),
              ('try', ''), ('unless', 'x'), ('raise', 'x'), ('comment', '')]
ERR_KINDS = ('misspelt-end', 'stray-end', 'stray-unknown-end', 'missing-end',
             'unknown-open', 'crossed', 'wrong-end', 'cont-outside',
             'cont-unknown')


def error_forms(kind, b, a):
    """one malformed template in the four spellings (dtml, SSI with / and
    with end, EPFS)"""
    A = (' ' + a) if a else ''
    t = {
        'misspelt-end': ('<dtml-%s%s>A</dtml-%sf>', '<!--#%s%s-->A<!--#/%sf-->',
                         '<!--#%s%s-->A<!--#end%sf-->', '%%(%s%s)[A%%(%sf)]'),
        'unknown-open': ('<dtml-%sq%s>A</dtml-%sq>',
                         '<!--#%sq%s-->A<!--#/%sq-->',
                         '<!--#%sq%s-->A<!--#end%sq-->',
                         '%%(%sq%s)[A%%(%sq)]'),
        'crossed': ('<dtml-%s%s><dtml-if z>A</dtml-%s></dtml-if>',
                    '<!--#%s%s--><!--#if z-->A<!--#/%s--><!--#/if-->',
                    '<!--#%s%s--><!--#if z-->A<!--#end%s--><!--#endif-->',
                    '%%(%s%s)[%%(if z)[A%%(%s)]%%(if)]'),
    }
    if kind in t:
        return [f % (b, A, b) for f in t[kind]]
    if kind == 'stray-end':
        return ['A</dtml-%s>B' % b, 'A<!--#/%s-->B' % b,
                'A<!--#end%s-->B' % b, 'A%%(%s)]B' % b]
    if kind == 'stray-unknown-end':
        return ['A</dtml-%sq>B' % b, 'A<!--#/%sq-->B' % b,
                'A<!--#end%sq-->B' % b, 'A%%(%sq)]B' % b]
    if kind == 'missing-end':
        return ['<dtml-%s%s>A' % (b, A), '<!--#%s%s-->A' % (b, A),
                '<!--#%s%s-->A' % (b, A), '%%(%s%s)[A' % (b, A)]
    if kind == 'wrong-end':
        return ['<dtml-%s%s>A</dtml-call>' % (b, A),
                '<!--#%s%s-->A<!--#/call-->' % (b, A),
                '<!--#%s%s-->A<!--#endcall-->' % (b, A),
                '%%(%s%s)[A%%(call)]' % (b, A)]
    if kind == 'cont-outside':
        return ['A<dtml-else>B', 'A<!--#else-->B', 'A<!--#else-->B',
                'A%(else)[B']
    return ['<dtml-%s%s>A<dtml-elsf>B</dtml-%s>' % (b, A, b),
            '<!--#%s%s-->A<!--#elsf-->B<!--#/%s-->' % (b, A, b),
            '<!--#%s%s-->A<!--#elsf-->B<!--#end%s-->' % (b, A, b),
            '%%(%s%s)[A%%(elsf)[B%%(%s)]' % (b, A, b)]


def run_errors(res, case):
    """"raises the same errors": a malformed template is refused for the
    same reason in every spelling"""
    from DocumentTemplate import HTML
    from DocumentTemplate import String
    from DocumentTemplate.DT_Util import ParseError
    n = 0
    for kind in ERR_KINDS:
        for b, a in ERR_BLOCKS:
            srcs = error_forms(kind, b, a)
            rs = []
            for cls, src in zip((HTML, HTML, HTML, String), srcs):
                try:
                    cls(src).cook()
                    rs.append('accepted')
                except ParseError as e:
                    rs.append(str(e.args[0]).split(', for tag ')[0])
                except Exception as e:
                    rs.append('exception:' + type(e).__name__)
                n += 1
            if len(set(rs)) > 1:
                res.violate('same-errors', 'errors:%s' % kind,
                            {'sources': srcs, 'reasons': rs},
                            {'label': 'errors'})
    res.evals = n
    res.nt_count = n
    res.outcome = 'errors'
    return res


def elseblk_programs():
    """the deprecated stand-alone else block, alone and inside blocks whose
    own name it is a (word or mid-word) prefix of"""
    for ref in (N('x'), N('u'), E('y')):
        yield 'elseblk', [T('a'), ['elseblk', ref, BODY], T('b')]
    for outer, inner in (('xy', 'x'), ('x', 'x'), ('yx', 'x'), ('x', 'xy')):
        yield 'elseblk', [['if', [[N(outer), [
            T('T'), ['elseblk', N(inner), [T('U')]], T('V')]]], None]]
        yield 'elseblk', [['in', N('seq'), [
            T('T'), ['elseblk', N(inner), [T('U')]], T('V')], None, []]]
        yield 'elseblk', [['unless', N(outer), [
            T('T'), ['elseblk', N(inner), [T('U')]], T('V')]]]


def programs(tier):
    for label, nodes in simple_programs():
        yield label, nodes
    for label, nodes in elseblk_programs():
        yield label, nodes
    for label, nodes in long_programs():
        yield label, nodes
    for wi, w in enumerate(BLOCK_WRAPPERS):
        for label, nodes in nest_subset():
            yield 'nest:%d:%s' % (wi, label), [T('<'), w(nodes), T('>')]
    if tier == 'thorough':
        subs = [n for _, n in nest_subset()]
        for a, b in itertools.product(range(0, len(subs), 3), repeat=2):
            yield 'pair', subs[a] + [T('|')] + subs[b]


def styles(tier):
    out = [{}]
    for k, vals in (('ws', (1, 2, 3, 4, 5, 6) if tier == 'quick' else
                     (1, 2, 3, 4, 5, 6, 7, 8, 9)),
                    ('quote', (1,)), ('endarg', (1,)),
                    ('ssiend', (1,)), ('exprkw', (1,)), ('eol', (1,))):
        for v in vals:
            out.append({k: v})
    out.append({'ws': 1, 'quote': 1, 'endarg': 1, 'ssiend': 1, 'exprkw': 1,
                'eol': 1})
    out.append({'ws': 2, 'quote': 1, 'endarg': 1, 'eol': 1})
    out.append({'endarg': 2})
    out.append({'endarg': 2, 'exprkw': 1, 'ssiend': 1})
    if tier == 'thorough':
        keys = ['quote', 'endarg', 'ssiend', 'exprkw', 'eol']
        for a, b in itertools.combinations(keys, 2):
            out.append({a: 1, b: 1})
        for ws in (1, 2, 3):
            out.append({'ws': ws, 'exprkw': 1, 'eol': 1})
    return out


def cases(tier):
    for i, (label, nodes) in enumerate(programs(tier)):
        yield {'label': label, 'nodes': nodes, 'tier': tier}
    for label, a, b in entity_programs():
        yield {'label': label, 'nodes': b, 'entity_nodes': a, 'tier': tier}
    for tag in ('if', 'in', 'unless', 'with'):
        yield {'label': 'spelling', 'tag': tag}
    yield {'label': 'errors'}
    # entity equivalences
    for name in ('x', 'sequence-item', 'a-b-c', 'x_y', 'x.y', 'q-', 'x9'):
        for mods in [['html_quote'], []] + [[m] for m in MODS] + \
                [list(p) for p in itertools.permutations(MODS[5:10], 2)] + \
                [list(p) for p in itertools.permutations(MODS[:4], 3)] + \
                [[m, m] for m in MODS[:3]]:
            if name != 'x' and len(mods) >= 2 and mods[0] != 'lower':
                continue
            yield {'label': 'entity', 'mods': mods, 'name': name}


NAMESPACES = [
    {'x': ['probe', 'x', ['lit', 'X<&\'y']], 'y': ['lit', 0],
     'seq': ['seq', 'list', [['obj', {'k': ['lit', 2], 'j': ['lit', 1]}],
                             ['obj', {'k': ['lit', 1], 'j': ['lit', 2]}],
                             ['obj', {'k': ['lit', 3], 'j': ['lit', 0]}]]],
     'empty': ['seq', 'list', []],
     'obj': ['obj', {'oa': ['lit', 'OA']}], 'mp': ['map', {'oa': ['lit', 'MA']}],
     'sk': ['lit', 'k'], 'rv': ['lit', 1], 'qs': ['lit', 2],
     'xy': ['lit', 1], 'yx': ['lit', 0],
     'boom': ['raiser', 'boom', 'HB', 'bm'], 'HAc': ['exc', 'HA'],
     'comment': ['lit', 'v-comment'], 'return': ['lit', 'v-return'],
     'if': ['lit', 'v-if'], 'in': ['lit', 'v-in'], 'call': ['lit', 'v-call'],
     'with': ['lit', 'v-with'], 'let': ['lit', 'v-let'],
     'try': ['lit', 'v-try'], 'var': ['lit', 'v-var'],
     'end': ['lit', 'v-end']},
    {'x': ['lit', ''], 'y': ['probe', 'y', ['lit', 'Y']], 'xy': ['lit', 0],
     'seq': ['seq', 'tuple', [['map', {'k': ['lit', 1], 'j': ['lit', 1]}]]],
     'empty': ['seq', 'list', []],
     'obj': ['obj', {}], 'mp': ['map', {}],
     'sk': ['lit', 'j'], 'rv': ['lit', 0], 'qs': ['lit', 1],
     'boom': ['raiser', 'boom', 'HX', 'bm'], 'HAc': ['exc', 'HA']},
    {'seq': ['seq', 'list', []], 'empty': ['seq', 'list', []]},
]


def compile_variant(nodes, sx, style):
    src = ast.to_source(nodes, sx, style)
    t = ast.template_class(sx)(src)
    try:
        t.cook()
    except CaseTimeout:
        raise
    except Exception as e:
        msg = str(e.args[0]) if e.args else ''
        cut = msg.find(', for tag ')
        return src, None, ['cook-exc', type(e).__name__,
                           msg[:cut] if cut >= 0 else msg]
    return src, t, fingerprint(t._v_blocks)


def observe(t, ns):
    w = World('impl')
    built = w.build_ns(ns)
    try:
        r = t(**built)
        out = ['ok', r if isinstance(r, str) else repr(r)]
    except CaseTimeout:
        raise
    except Exception as e:
        out = ['exc', type(e).__name__, str(e)[:200]]
    return out + [w.log]


SPELL_SHELLS = {
    'dtml': ('<dtml-%s %s>A<dtml-else%s>B</dtml-%s%s>', 'HTML'),
    'ssi': ('<!--#%s %s-->A<!--#else%s-->B<!--#/%s%s-->', 'HTML'),
    'epfs': ('%%(%s %s)[A%%(else%s)[B%%(%s%s)]', 'String'),
}
SPELL_START = ['x', 'name=x', 'name="x"', 'x ', '"x"', 'expr="x"']
SPELL_ELSE = ['', ' x', ' name=x', ' name="x"', ' y', ' "x"', '  x']
SPELL_END = ['', ' x', ' name=x', ' y']


def run_spelling(res, case):
    """if / in with an else that repeats (or does not repeat) the object's
    name, in every combination of spellings: whatever one syntax makes of a
    combination - a program, or a rejection - the other two make as well"""
    import DocumentTemplate
    tag = case['tag']
    n = 0
    for st in SPELL_START:
        for el in SPELL_ELSE:
            for en in SPELL_END:
                seen = {}
                for sx, (shell, cls) in SPELL_SHELLS.items():
                    src = shell % (tag, st, el, tag, en)
                    t = getattr(DocumentTemplate, cls)(src)
                    try:
                        t.cook()
                        fp = ['ok', fingerprint(t._v_blocks)]
                        obs = [observe(t, ns) for ns in NAMESPACES[:2]]
                    except CaseTimeout:
                        raise
                    except Exception as e:
                        fp, obs = ['rejected', type(e).__name__], None
                    seen[sx] = (src, fp, obs)
                    n += 1
                base = seen['dtml']
                for sx in ('ssi', 'epfs'):
                    src, fp, obs = seen[sx]
                    if fp != base[1]:
                        res.violate('same-program', 'compiled:%s:spelling-%s'
                                    % (sx, tag),
                                    {'base': base[0], 'variant': src,
                                     'base_outcome': base[1][0],
                                     'variant_outcome': fp[0]},
                                    dict(case))
                    elif obs != base[2]:
                        res.violate('same-rendering', 'rendered:%s:spelling-%s'
                                    % (sx, tag),
                                    {'base': base[0], 'variant': src,
                                     'base_result': base[2],
                                     'variant_result': obs}, dict(case))
    res.evals = n
    res.count('programs', n)
    res.count('pairs', n)
    res.nontrivial = True
    res.outcome = 'spelling'
    return res


def run(case):
    res = Res()
    if case['label'] == 'spelling':
        return run_spelling(res, case)
    if case['label'] == 'entity':
        return run_entity(res, case)
    if case['label'] == 'errors':
        return run_errors(res, case)
    nodes = case['nodes']
    base_src, base_t, base_fp = compile_variant(nodes, 'dtml', {})
    # "x" and expr="x" are two spellings inside one syntax; the tag records
    # which one was used, so programs are compared per spelling
    _s, _t, base_fp_kw = compile_variant(nodes, 'dtml', {'exprkw': 1})
    base_obs = None
    if base_t is not None:
        base_obs = [observe(base_t, ns) for ns in NAMESPACES]
    pairs = 0
    tier_styles = styles(case.get('tier', 'quick'))
    for sx in ast.SYNTAXES:
        for style in tier_styles:
            if sx == 'dtml' and not style:
                continue
            if sx != 'ssi' and 'ssiend' in style and len(style) == 1:
                continue
            if sx == 'epfs' and case['label'] == 'var-named-var':
                continue        # %(var ...)s is the var tag itself
            try:
                src, t, fp = compile_variant(nodes, sx, style)
            except ValueError:
                res.count('not-expressible')
                continue
            pairs += 1
            want = base_fp_kw if style.get('exprkw') else base_fp
            if fp != want:
                res.violate('same-program', 'compiled:%s:%s' % (
                    sx, case['label'].split(':')[-1]),
                    {'base': base_src, 'variant': src,
                     'difference': (first_difference(want, fp) or '')[:400]},
                    dict(case, only=[sx, style]))
                continue
            if t is None:
                continue
            for ns, bo in zip(NAMESPACES, base_obs):
                o = observe(t, ns)
                if o != bo:
                    res.violate('same-rendering', 'rendered:%s:%s' % (
                        sx, case['label'].split(':')[-1]),
                        {'base': base_src, 'variant': src,
                         'base_result': bo, 'variant_result': o},
                        dict(case, only=[sx, style]))
                    break
    if 'entity_nodes' in case:
        # the same program written with &dtml-...; instead of dtml-var
        for sx in ('dtml', 'ssi'):
            for style in ({}, {'eol': 1}, {'ws': 1, 'endarg': 1}):
                src, t, fp = compile_variant(case['entity_nodes'], sx, style)
                pairs += 1
                if fp != base_fp:
                    res.violate('same-program', 'compiled:entity-in-context',
                                {'base': base_src, 'variant': src,
                                 'difference': (first_difference(
                                     base_fp, fp) or '')[:400]})
                    continue
                if t is None:
                    continue
                for ns, bo in zip(NAMESPACES, base_obs):
                    o = observe(t, ns)
                    if o != bo:
                        res.violate('same-rendering',
                                    'rendered:entity-in-context',
                                    {'base': base_src, 'variant': src,
                                     'base_result': bo, 'variant_result': o})
                        break
    res.evals = pairs
    res.count('programs', 1)
    res.count('pairs', pairs)
    res.nontrivial = base_t is not None and any(
        not isinstance(b, str) for b in base_t._v_blocks)
    res.outcome = case['label'].split(':')[0] + (
        ':cook-error' if base_t is None else '')
    return res


def run_entity(res, case):
    from DocumentTemplate import HTML
    mods = case['mods']
    name = case.get('name', 'x')
    if mods == ['html_quote']:
        ent = '&dtml-%s;' % name
    else:
        ent = '&dtml.%s-%s;' % ('.'.join(mods), name)
    tag = '<dtml-var %s %s>' % (name, ' '.join(mods))
    a, b = HTML('a%sb' % ent), HTML('a%sb' % tag)
    try:
        b.cook()
    except Exception:
        # the tag form is not valid for this name: nothing to compare
        res.outcome = 'entity:tag-form-invalid'
        return res
    try:
        a.cook()
    except Exception as e:
        res.violate('same-program', 'compiled:entity:cook-error',
                    {'entity': ent, 'tag': tag, 'exception': repr(e)[:200]})
        res.outcome = 'entity'
        return res
    fa, fb = fingerprint(a._v_blocks), fingerprint(b._v_blocks)
    if fa != fb:
        res.violate('same-program', 'compiled:entity',
                    {'entity': ent, 'tag': tag,
                     'difference': (first_difference(fa, fb) or '')[:400]})
    extra = {'sequence-item': ['lit', 'S<i'], 'a-b-c': ['lit', 'A&c'],
             'x_y': ['lit', 'u_v'], 'x.y': ['lit', 'dot'], 'q-': ['lit', 'Q'],
             'x9': ['lit', '9']}
    for ns in NAMESPACES:
        ns = dict(ns, **extra)
        oa, ob = observe(a, ns), observe(b, ns)
        if oa != ob:
            res.violate('same-rendering', 'rendered:entity',
                        {'entity': ent, 'tag': tag, 'entity_result': oa,
                         'tag_result': ob})
    res.evals = 1
    res.count('programs', 1)
    res.count('pairs', 1)
    res.nontrivial = True
    res.outcome = 'entity'
    return res


def finalize(tier, agg):
    c = agg['counters']
    if c.get('pairs', 0) < 5000:
        raise HarnessFault('vacuous: too few variant pairs')
    # self-test: different programs must have different fingerprints
    from DocumentTemplate import HTML
    a, b = HTML('<dtml-var x upper>'), HTML('<dtml-var x lower>')
    a.cook()
    b.cook()
    if digest(fingerprint(a._v_blocks)) == digest(fingerprint(b._v_blocks)):
        raise HarnessFault('self-test: fingerprint too coarse')
    return {'programs': c.get('programs', 0),
            'disagreements_checked': c.get('pairs', 0),
            'not_expressible': c.get('not-expressible', 0)}
