"""C17 - rendering is repeatable and side-effect free; templates survive
persistence.

Explicit-state search over operation histories on one live template:
    R0..R2   render with namespace i (client object + mapping + keywords)
    P        pickle round trip
    D        copy.deepcopy
    C        cook()
    M0..M3   munge(source j)
    G0, G1   munge(mapping=defaults d)
A state is the history that reaches it (live templates are rebuilt by
replaying the history on a fresh object); states are deduplicated on the
object-graph fingerprint of the template (its __dict__ including the compiled
blocks and every per-tag instance attribute).  All histories up to a depth
literally, then breadth-first with deduplication until no new state appears.

Oracle on every render transition: the result equals that of a *fresh*
template built from the current source and defaults; the caller's mapping,
sequence (same object, same elements, same order), client object and the
template's defaults are unchanged.  Family persist: pickled state holds no
_v_ attribute; a file-based template pickles its file name, not its content.
"""

import copy
import os
import pickle
import shutil
import tempfile

from ..core import CaseTimeout
from ..core import HarnessFault
from ..core import Res
from ..fingerprint import digest
from ..fingerprint import fingerprint

ID = 'C17'
LEVEL = 'model_checking'
MANIFEST = {
    'technique': 'explicit-state breadth-first search over operation '
                 'histories of a live template (render / pickle / deepcopy '
                 '/ cook / munge), states canonicalised by an object-graph '
                 'fingerprint; every render transition compared with a '
                 'freshly built template',
    'text': 'Starting from each of 4 sources x 2 default sets, all histories '
            'over 14 operations (munge also to the empty source and to empty defaults) are executed on the real code literally up '
            'to depth 3 (quick) / 4 (thorough) and then breadth-first with '
            'deduplication on the template fingerprint to depth 8 / until '
            'no new state appears.  After every render the result must '
            'equal that of a fresh template with the same source and '
            'defaults, and the caller mapping, sequence object, client and '
            'the template defaults must be unchanged.  Pickled state must '
            'omit _v_ data, a restored / copied template must keep source '
            'and defaults, and HTMLFile must pickle the file name only and '
            're-read the file after unpickling.  Feature families: for '
            'each of ~55 small templates (one per tag / option, table in '
            'dtmc/features.py) with three namespaces that differ in what a '
            'memo could capture, all histories over {render ns0..2, pickle, '
            'deepcopy} up to depth 3 (quick) / 4 (thorough), and all '
            'ordered pairs (template F with namespace i, then template G '
            'with namespace j); every render must equal the render of that '
            '(template, namespace) alone in a pristine process (a child '
            'forked from a zygote that has imported the library but never '
            'compiled or rendered anything), and must leave the caller '
            'data untouched.',
    'more': 'Also: features for size= over too-long bytes, too-long text and short text in one history; a source with CR LF / CR CR LF line ends in the munge / pickle / copy histories.',
    'note': 'Trusted: dtmc/fingerprint.py as canonical form (deliberately '
            'over-fine: equal fingerprints = equal mutable state reachable '
            'by the renderer, so equal futures); the lazily imported '
            'class-level command table is pre-warmed and excluded (C18 '
            'covers the compile race).  dtmc/pristine.py (zygote + fork '
            'per observation) as the source of history-free results: it '
            'also sees state kept at class or module level, which a fresh '
            'template in the same process would share.',
}
DYNAMIC = True        # few heavy cases: dynamic load balancing
RULE = ('operation histories over {R0,R1,R2,P,D,C,M0..M4,G0..G2} from 8 '
        'initial templates; literal depth 3/4, deduplicated depth 8/12; '
        'feature table: histories over {R0,R1,R2,P,D} to depth 3/4 per '
        'feature and all ordered (feature, namespace) pairs.  A '
        'transition is non-trivial when it is a render that follows at '
        'least one other operation.')
ASSUMPTIONS = ['namespace objects are rebuilt for every replay so that '
               'histories do not alias data']
CASE_CPU_SECONDS = 900.0
CASE_CPU_SECONDS_QUICK = 60.0

SOURCES = [
    '<dtml-in seq sort_expr="sk"><dtml-var k><dtml-var j>,</dtml-in>|'
    '<dtml-var d>',
    '<dtml-in seq sort=k reverse size=2 orphan=0><dtml-var k>,</dtml-in>|'
    '&dtml-d;',
    '<dtml-if a><dtml-let b=a c="d">&dtml-b;<dtml-var c></dtml-let>'
    '<dtml-else>F</dtml-if><dtml-with o><dtml-var x></dtml-with>',
    '<dtml-try><dtml-var sub><dtml-var boom><dtml-except HA>E<dtml-var d>'
    '</dtml-try><dtml-in seq reverse_expr="a" prefix=p>'
    '<dtml-var p_index></dtml-in>',
    # line ends as a DOS editor / a browser form leaves them
    '<dtml-if a>\r\nyes\r\r\n<dtml-else>\r\nno\r</dtml-if>\r\n&dtml-d;\r'
    '<dtml-in seq>\r\n<dtml-var k>\r\n</dtml-in>\n\r',
    '',                       # re-edited to the empty text
]
DEFAULTS = [{'d': 'd0'}, {'d': 'd1', 'a': 0, 'sk': 'j'}, {}]
OPS = ['R0', 'R1', 'R2', 'P', 'D', 'C', 'M0', 'M1', 'M2', 'M3', 'M4', 'M5',
       'G0',
       'G1', 'G2']


class HA(Exception):
    pass


class Elem:
    def __init__(self, k, j):
        self.k, self.j = k, j

    def __eq__(self, other):
        return isinstance(other, Elem) and (self.k, self.j) == \
            (other.k, other.j)

    __hash__ = None


class Client:
    pass


def boom():
    raise HA('boom')


def make_ns(i):
    """-> (client, mapping, kw) fresh objects"""
    from DocumentTemplate import HTML
    c = Client()
    c.x = 'X%d' % i
    o = Client()
    o.x = 'OX%d' % i
    seqs = [[Elem(2, 1), Elem(1, 2), Elem(3, 0), Elem(1, 1)],
            [Elem(1, 3), Elem(2, 2)],
            []]
    mapping = {'seq': seqs[i], 'o': o}
    kw = {'boom': boom, 'sub': HTML('[<dtml-var d>&dtml-x;]')}
    if i == 0:
        kw.update(sk='k', a=1)
    elif i == 1:
        kw.update(sk='j', a=0)
    else:
        kw.update(a='<A>')
    return c, mapping, kw


def call(t, i):
    c, mapping, kw = make_ns(i)
    seq = mapping['seq']
    snap_seq = list(seq)
    snap_map = dict(mapping)
    snap_kw = dict(kw)
    snap_client = dict(c.__dict__)
    try:
        r = ('ok', t(c, mapping, **kw))
    except CaseTimeout:
        raise
    except Exception as e:
        r = ('exc', type(e).__name__, str(e)[:100])
    side = None
    if mapping.get('seq') is not seq or len(seq) != len(snap_seq) or \
            any(a is not b for a, b in zip(seq, snap_seq)):
        side = 'caller-sequence'
    elif set(mapping) != set(snap_map) or \
            any(mapping[k] is not snap_map[k] for k in snap_map):
        side = 'caller-mapping'
    elif kw != snap_kw and set(kw) != set(snap_kw):
        side = 'caller-keywords'
    elif c.__dict__ != snap_client:
        side = 'client'
    return r, side


def fresh(src_i, def_i):
    from DocumentTemplate import HTML
    return HTML(SOURCES[src_i], **copy.deepcopy(DEFAULTS[def_i]))


def canon(t):
    d = dict(t.__dict__)
    return digest(fingerprint(d))


def apply_op(t, model, op):
    """-> (template, model, render observation or None)"""
    src_i, def_i = model
    if op[0] == 'R':
        return t, model, call(t, int(op[1]))
    if op == 'P':
        return pickle.loads(pickle.dumps(t)), model, None
    if op == 'D':
        return copy.deepcopy(t), model, None
    if op == 'C':
        t.cook()
        return t, model, None
    if op[0] == 'M':
        j = int(op[1])
        t.munge(SOURCES[j])
        return t, (j, def_i), None
    if op[0] == 'G':
        d = int(op[1])
        t.munge(mapping=copy.deepcopy(DEFAULTS[d]))
        return t, (src_i, d), None
    raise ValueError(op)


def replay(start, hist, res=None, sub=None):
    """replays hist from `start`; judges the LAST operation only"""
    t = fresh(*start)
    model = tuple(start)
    obs = None
    for i, op in enumerate(hist):
        try:
            t, model, obs = apply_op(t, model, op)
        except CaseTimeout:
            raise
        except Exception as e:
            if res is not None and i == len(hist) - 1:
                res.violate('operation-succeeds', 'op-failed:%s:%s' % (
                    op[0] if op[0] in 'RMG' else op, type(e).__name__),
                    {'history': hist, 'start': list(start),
                     'exception': repr(e)[:300]}, sub)
            return t, model
    if res is not None and hist:
        op = hist[-1]

        def cls(o):
            return o[0] if o[0] in 'RMG' else o
        tag = '%s-after-%s' % (cls(op), cls(hist[-2]) if len(hist) > 1
                               else 'nothing')
        if obs is not None:
            r, side = obs
            want, _ = call(fresh(*model), int(op[1]))
            if r != want:
                res.violate('same-as-fresh', 'render-differs:%s' % tag,
                            {'history': hist, 'start': list(start),
                             'source': SOURCES[model[0]], 'got': r,
                             'fresh': want}, sub)
            if side:
                res.violate('no-side-effect', 'mutated:%s' % side,
                            {'history': hist, 'start': list(start),
                             'source': SOURCES[model[0]]}, sub)
        # defaults and source intact (after every kind of operation)
        have = getattr(t, 'globals', '(no defaults at all)')
        if have != DEFAULTS[model[1]]:
            res.violate('defaults-intact', 'defaults-changed:%s' % tag,
                        {'history': hist, 'start': list(start),
                         'globals': repr(have)}, sub)
        try:
            raw = t.read()
        except CaseTimeout:
            raise
        except Exception as e:
            raw = 'read() raised %r' % (e,)
        if raw != SOURCES[model[0]]:
            res.violate('source-intact', 'source-changed:%s' % tag,
                        {'history': hist, 'start': list(start),
                         'raw': raw}, sub)
        st = t.__getstate__()
        if any(k.startswith('_v_') for k in st):
            res.violate('pickle-omits-compiled', 'getstate-has-v:%s' % tag,
                        {'history': hist, 'keys': sorted(st)}, sub)
    return t, model


def prewarm():
    from DocumentTemplate import HTML
    import TreeDisplay  # noqa: F401
    HTML('<dtml-in a></dtml-in><dtml-with a></dtml-with><dtml-if a>'
         '</dtml-if><dtml-unless a></dtml-unless><dtml-raise a>'
         '</dtml-raise><dtml-try><dtml-except></dtml-try><dtml-let a=b>'
         '</dtml-let>').cook()


def explore(res, start, literal, maxdepth):
    prewarm()
    seen = {}
    transitions = 0
    t0, _ = replay(start, [])
    seen[canon(t0)] = []
    frontier = [[]]
    # phase 1: literal
    for d in range(literal):
        nxt = []
        for hist in frontier:
            for op in OPS:
                h2 = hist + [op]
                sub = {'start': list(start), 'history': h2}
                t, model = replay(start, h2, res, sub)
                transitions += 1
                seen.setdefault(canon(t), h2)
                nxt.append(h2)
        frontier = nxt
    # phase 2: deduplicated
    queue = [h for h in seen.values()]
    expanded = set()
    depth_reached = literal
    while queue:
        hist = queue.pop(0)
        key = canon(replay(start, hist)[0])
        if key in expanded or len(hist) >= maxdepth:
            continue
        expanded.add(key)
        for op in OPS:
            h2 = hist + [op]
            sub = {'start': list(start), 'history': h2}
            t, model = replay(start, h2, res, sub)
            transitions += 1
            k = canon(t)
            if k not in seen:
                seen[k] = h2
                queue.append(h2)
                depth_reached = max(depth_reached, len(h2))
    return len(seen), transitions, depth_reached


# ---------------------------------------------------------------- persist

def run_persist(res):
    from DocumentTemplate import HTMLFile
    from DocumentTemplate.DT_String import File
    n = 0
    d = tempfile.mkdtemp(prefix='dtmc-c17-')
    try:
        for cls, name in ((HTMLFile, 'HTMLFile'), (File, 'File')):
            path = os.path.join(d, name + '.dtml')
            marker1, marker2 = 'CONTENT-ONE-%s' % name, 'CONTENT-TWO-%s' % name
            var = '<dtml-var x>' if cls is HTMLFile else '%(x)s'
            with open(path, 'w') as f:
                f.write(marker1 + var)
            t = cls(path)
            r1 = t(x='1')
            n += 1
            blob = pickle.dumps(t)
            if marker1.encode() in blob or path.encode() not in blob:
                res.violate('file-pickles-name', 'file-pickle:%s' % name,
                            {'has_content': marker1.encode() in blob,
                             'has_name': path.encode() in blob})
            if r1 != marker1 + '1':
                res.violate('file-render', 'file-render:%s' % name, r1)
            with open(path, 'w') as f:
                f.write(marker2 + var)
            t2 = pickle.loads(blob)
            r2 = t2(x='2')
            n += 1
            if r2 != marker2 + '2':
                res.violate('file-reread', 'file-reread:%s' % name,
                            {'got': r2, 'expected': marker2 + '2'})
    finally:
        shutil.rmtree(d, ignore_errors=True)
    res.evals = n
    res.nt_count = n
    res.states = 4
    res.transitions = n
    res.traces = n
    res.sample = {'persist': 'HTMLFile / File pickle name, re-read after '
                             'rewrite'}


# ------------------------------------------------- feature histories

FEAT_OPS = ['R0', 'R1', 'R2', 'P', 'D']


def feat_fresh(f):
    import DocumentTemplate
    from ..features import FEATURES
    opts = dict(FEATURES[f][3]) if len(FEATURES[f]) > 3 else {}
    cls = getattr(DocumentTemplate, opts.pop('cls', 'HTML'))
    tvars = opts.pop('tvars', None)
    t = cls(FEATURES[f][1], opts.pop('mapping', None), **opts)
    if tvars:
        t.var(**tvars)
    return t


def feat_alone(f, i):
    """called in a pristine process: the very first compile and render"""
    from ..features import FEATURES
    from ..features import observe
    return observe(feat_fresh(f), FEATURES[f][2][i]())


def feat_render(res, t, f, i, tag, ctx):
    from .. import pristine
    from ..features import FEATURES
    from ..features import observe
    from ..features import snapshot
    ns = FEATURES[f][2][i]()
    snap = snapshot(ns)
    keys = set(ns)
    got = observe(t, ns)
    want = pristine.alone('c17', 'feat_alone', [f, i])
    name = FEATURES[f][0]
    if got != want:
        res.violate('same-as-pristine', 'feat-differs:%s:%s' % (name, tag),
                    dict(ctx, source=FEATURES[f][1], got=got, alone=want),
                    dict(ctx))
    if set(ns) != keys or snapshot(ns) != snap:
        res.violate('no-side-effect', 'feat-mutated:%s' % name,
                    dict(ctx, source=FEATURES[f][1]), dict(ctx))


def run_feat(res, case):
    """all histories over FEAT_OPS up to the depth (or one given history)"""
    import itertools
    f = case['f']
    hists = [case['history']] if 'history' in case else (
        h for d in range(1, case['depth'] + 1)
        for h in itertools.product(FEAT_OPS, repeat=d) if h[-1][0] == 'R')
    n = 0
    for h in hists:
        t = feat_fresh(f)
        ctx = {'fam': 'feat', 'f': f, 'history': list(h)}
        prev = 'nothing'
        for k, op in enumerate(h):
            if op in ('P', 'D'):
                try:
                    t = pickle.loads(pickle.dumps(t)) if op == 'P' \
                        else copy.deepcopy(t)
                except CaseTimeout:
                    raise
                except Exception as e:
                    from ..features import FEATURES
                    res.violate('operation-succeeds', 'feat-op-failed:%s:%s'
                                % (op, type(e).__name__),
                                dict(ctx, source=FEATURES[f][1],
                                     exception=repr(e)[:200]), dict(ctx))
                    break
            elif k == len(h) - 1 or 'history' in case:
                # earlier renders of this history are the last operation of
                # a shorter history that is enumerated as well
                feat_render(res, t, f, int(op[1]), 'R-after-' + prev[0], ctx)
            else:
                from ..features import FEATURES
                from ..features import observe
                observe(t, FEATURES[f][2][int(op[1])]())
            prev = op
        n += 1
    res.evals = res.transitions = res.traces = n
    res.nt_count = n
    res.states = n
    res.outcome = 'feat'


def run_cross(res, case):
    """template F rendered with namespace i, then every other template G
    with every namespace j in the same process: G's result must equal G's
    result alone (state shared between templates: class or module level)"""
    from ..features import FEATURES
    from ..features import observe
    f, i = case['f'], case['i']
    pairs = [(case['g'], case['j'])] if 'g' in case else [
        (g, j) for g in range(len(FEATURES)) if g != f for j in range(3)]
    for g, j in pairs:
        observe(feat_fresh(f), FEATURES[f][2][i]())
        ctx = {'fam': 'cross', 'f': f, 'i': i, 'g': g, 'j': j}
        feat_render(res, feat_fresh(g), g, j,
                    'after-template-' + FEATURES[f][0], ctx)
    res.evals = res.transitions = res.traces = len(pairs)
    res.nt_count = len(pairs)
    res.states = len(pairs)
    res.outcome = 'cross'


def cases(tier):
    from ..features import FEATURES
    yield {'fam': 'persist'}
    for f in range(len(FEATURES)):
        yield {'fam': 'feat', 'f': f, 'depth': 3 if tier == 'quick' else 4}
    for f in range(len(FEATURES)):
        for i in range(3):
            yield {'fam': 'cross', 'f': f, 'i': i}
    lit, maxd = (3, 8) if tier == 'quick' else (4, 12)
    for s in range(len(SOURCES) - 1):
        for d in range(len(DEFAULTS) - 1):
            yield {'fam': 'hist', 'start': [s, d], 'literal': lit,
                   'maxdepth': maxd}


def run(case):
    res = Res()
    if case['fam'] == 'persist':
        run_persist(res)
        res.outcome = 'persist'
        return res
    if case['fam'] == 'feat':
        run_feat(res, case)
        return res
    if case['fam'] == 'cross':
        run_cross(res, case)
        return res
    if 'history' in case:
        prewarm()
        for i in range(1, len(case['history']) + 1):
            replay(case['start'], case['history'][:i], res, case)
        res.nontrivial = True
        return res
    states, transitions, depth = explore(res, case['start'], case['literal'],
                                         case['maxdepth'])
    res.states = states
    res.transitions = transitions
    res.traces = transitions
    res.evals = transitions
    res.nt_count = transitions - len(OPS)
    res.count('max_depth', depth)
    res.sample = {'start': case['start'], 'states': states,
                  'transitions': transitions, 'depth_reached': depth,
                  'example_history': ['R0', 'P', 'M1', 'R1']}
    res.outcome = 'hist'
    return res


def finalize(tier, agg):
    if agg['states'] < 40:
        raise HarnessFault('vacuous: too few distinct states (%d)'
                           % agg['states'])
    return {'operations': OPS}
