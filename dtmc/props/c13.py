"""C13 - sorting yields a stable, correctly ordered permutation and never
mutates the caller's sequence.

Space: all lists of 0..N uniquely identified elements whose key(s) are drawn
from a small domain with duplicates, None and "attribute missing", for seven
key types; every single and double sort spec with every comparison function
and direction; x reverse x batching x objects/mappings.
"""

import datetime
import decimal
import fractions
import itertools

from ..core import HarnessFault
from ..core import Res

ID = 'C13'
LEVEL = 'exploration'
MANIFEST = {
    'technique': 'exhaustive enumeration of all short lists over small key '
                 'domains x all sort specs x reverse x batching; relational '
                 'oracle (permutation, order, stability, None-prefix, '
                 'reverse, input unchanged)',
    'text': 'Every list of 0..4 (quick) / 0..5 (thorough) uniquely '
            'identified elements with keys from {two or three values, None, '
            'missing} for the key types int, str (mixed case), float, bool, '
            'date, Decimal and callables, as objects and mappings, is '
            'rendered with every sort spec (k, k/cmp, k/nocase, /asc, /desc, '
            'two keys with all direction mixes, empty, sequence-item, '
            'sort_expr) with and without reverse and batching; the displayed '
            'identities must be a permutation of the input, ordered under '
            'the spec, stable for equal keys, None/missing keys first (last '
            'under /desc), reverse the exact mirror, and the caller list '
            'untouched.  Also: two-key sorts over Decimal / date and bool / '
            'bytes keys, the sequence given as an expression, and a second '
            'render of the same template and list after the keys of the '
            'element objects were rotated in place; numbers of different '
            'types (int, float, Decimal, Fraction) in one column; a '
            'callable first key of two; key-less sorts with a comparison '
            'function / direction (sort="/cmp/desc").',
    'more': 'Also: lists of 9..257 elements in four key patterns (scale); text keys whose full case folding differs from their lower-case form.',
    'note': 'Trusted: the 30-line comparison model in this driver (Python '
            '<, str.lower for nocase).  The mutual order of None/missing '
            'keys is not checked, as the statement says.',
}
RULE = ('all lists of length 0..4 (quick) / 0..5 (thorough) over the key '
        'domain of each key type (2-3 values + None + missing), two-key '
        'lists over {1,2,None}^2, 2-tuples and plain values for item sort; '
        'x every sort spec of the type x {objects, mappings} x {plain, '
        'reverse} x {unbatched, size=2 start=1, size=2 start=2}.  A (list, '
        'spec, container, reverse, batch) run is non-trivial when the list '
        'has at least two elements.')
ASSUMPTIONS = ['keys of different types are never mixed in one list (Python '
               'cannot order them)',
               'batched runs are compared with the window of the unbatched '
               'run of the same configuration']
CASE_CPU_SECONDS = 300.0
CASE_CPU_SECONDS_QUICK = 120.0

D = datetime.date
DOMAINS = {
    'int': [1, 2, None, 'MISSING'],
    'str': ['a', 'B', 'b', None, 'MISSING'],
    # text whose full case folding differs from its lower-case form
    'strx': ['Stra\xdfe', 'STRASSE', 'strasse', '\u03c2', '\u03a3', 'MISSING'],
    'float': [0.5, 1.5, None, 'MISSING'],
    'bool': [False, True, None, 'MISSING'],
    'date': [D(2020, 1, 1), D(2021, 6, 1), None, 'MISSING'],
    'decimal': [decimal.Decimal(1), decimal.Decimal(2), None, 'MISSING'],
    'callint': [('call', 1), ('call', 2), ('call', None), None, 'MISSING'],
    'pair': [(a, b) for a in (1, 2, None) for b in (1, 2, None)],
    'tuple-item': [1, 2, 3],
    'plain-item': [1, 2, 3],
    # two keys of types that are neither "basic" nor callable
    'pairx': [(a, b) for a in (decimal.Decimal(1), decimal.Decimal(2), None)
              for b in (D(2020, 1, 1), D(2021, 6, 1), None)],
    'pairbool': [(a, b) for a in (False, True, None)
                 for b in (b'a', b'b', None)],
    # numbers of different types in one column (they compare by value)
    'nummix': [1, decimal.Decimal('2.5'), 0.5, fractions.Fraction(3, 2),
               decimal.Decimal('0.75'), 3, None, 'MISSING'],
    # two keys, the first one a method (which may return None)
    'paircall': [(('call', a), b) for a in (1, 2, None) for b in (1, 2, None)],
}

SPECS = {
    'int': ['k', 'k/cmp', 'k/cmp/asc', 'k/cmp/desc', 'k/cmp/DESC',
            'k/cmp/Desc', 'k/cmp/ASC', 'EXPR:k/cmp/DESC', 'EXPR:k',
            'EXPR:k/cmp/desc', 'NOSORT',
            # X: = the sequence is given as an expression ("seq")
            'X:NOSORT', 'X:k', 'X:EXPR:k'],
    'str': ['k', 'k/cmp', 'k/cmp/desc', 'k/nocase', 'k/nocase/asc',
            'k/nocase/desc', 'EXPR:k/nocase',
            # the locale-aware functions (the process runs in the C locale:
            # code point order) and a function found in the namespace
            'k/locale', 'k/strcoll/desc', 'k/locale_nocase',
            'k/strcoll_nocase/desc', 'k/byfn', 'k/byfn/desc',
            'EXPR:k/byfn/desc'],
    'strx': ['k', 'k/nocase', 'k/nocase/desc', 'k/locale_nocase',
             'EXPR:k/nocase'],
    'float': ['k', 'k/cmp/desc'],
    'bool': ['k', 'k/cmp', 'k/cmp/desc'],
    'date': ['k', 'k/cmp', 'k/cmp/desc'],
    'decimal': ['k', 'k/cmp', 'k/cmp/desc'],
    'callint': ['k', 'k/cmp', 'k/cmp/desc'],
    'pair': ['k,k2', 'k/cmp,k2/cmp', 'k/cmp/asc,k2/cmp/desc',
             'k/cmp/desc,k2/cmp/asc', 'k/cmp/desc,k2/cmp/desc',
             'k2,k', 'EXPR:k,k2'],
    # the elements themselves (2-tuples: their keys) as the sort key, also
    # with a comparison function / direction and no key name
    'tuple-item': ['', 'sequence-item', '/cmp', '/cmp/desc', '/cmp/asc',
                   'EXPR:/cmp/desc'],
    'plain-item': ['', 'sequence-item', '/cmp', '/cmp/desc', '/cmp/asc',
                   'EXPR:/cmp/desc'],
    'pairx': ['k,k2', 'k/cmp/desc,k2/cmp/asc', 'k2,k'],
    'pairbool': ['k,k2', 'k/cmp/asc,k2/cmp/desc', 'k2/cmp/desc,k'],
    'nummix': ['k', 'k/cmp', 'k/cmp/desc', 'EXPR:k/cmp'],
    'paircall': ['k,k2', 'k/cmp,k2/cmp/desc', 'k2,k'],
}

ABSENT = object()


class O:
    pass


def build(ktype, syms, mapping):
    """-> (sequence, keys) keys[i] = tuple of key components of element i"""
    dom = DOMAINS[ktype]
    seq, keys = [], []
    for i, s in enumerate(syms):
        v = dom[s]
        if ktype == 'tuple-item':
            o = O()
            o.id = i
            seq.append((v, {'id': i} if mapping else o))
            keys.append((v,))
            continue
        if ktype == 'plain-item':
            seq.append(v)
            keys.append((v,))
            continue
        attrs = {'id': i}
        if ktype in ('pair', 'pairx', 'pairbool', 'paircall'):
            comp = []
            for name, x in zip(('k', 'k2'), v):
                if isinstance(x, tuple) and x[0] == 'call':
                    attrs[name] = (lambda r=x[1]: r)
                    x = x[1]
                else:
                    attrs[name] = x
                comp.append(ABSENT if x is None else x)
            keys.append(tuple(comp))
        else:
            if isinstance(v, str) and v == 'MISSING':
                keys.append((ABSENT,))
            elif v is None:
                attrs['k'] = None
                keys.append((ABSENT,))
            elif isinstance(v, tuple) and v[0] == 'call':
                attrs['k'] = (lambda r=v[1]: r)
                keys.append((ABSENT if v[1] is None else v[1],))
            else:
                attrs['k'] = v
                keys.append((v,))
        if mapping:
            seq.append(attrs)
        else:
            o = O()
            o.__dict__.update(attrs)
            seq.append(o)
    return seq, keys


def parse_spec(spec):
    """-> [(component index, nocase?, desc?)]"""
    spec = spec[2:] if spec.startswith('X:') else spec
    spec = spec[5:] if spec.startswith('EXPR:') else spec
    if spec in ('', 'sequence-item'):
        return [(0, False, False)]
    if spec == 'NOSORT':
        return []               # every pair compares equal: input order
    out = []
    for f in spec.split(','):
        p = f.split('/')
        out.append(({'k': 0, 'k2': 1, '': 0}[p[0]],
                    len(p) > 1 and p[1] in ('nocase', 'locale_nocase',
                                            'strcoll_nocase'),
                    len(p) > 2 and p[2].lower() == 'desc'))
    return out


def compare(ka, kb, fields):
    """-1 / 0 / 1, or None where the statement leaves the order open."""
    for comp, nocase, desc in fields:
        a, b = ka[comp], kb[comp]
        if a is ABSENT and b is ABSENT:
            return None                 # mutual order unspecified
        if a is ABSENT:
            c = -1
        elif b is ABSENT:
            c = 1
        else:
            if nocase:
                a, b = a.lower(), b.lower()
            c = (a > b) - (a < b)
        if c:
            return -c if desc else c
    return 0


def template(spec, mapping, reverse, batch, ktype):
    from DocumentTemplate import HTML
    key = (spec, mapping, reverse, batch, ktype == 'plain-item')
    t = _t.get(key)
    if t is None:
        seqref = 'seq'
        if spec.startswith('X:'):
            spec, seqref = spec[2:], '"seq"'
        if spec == 'NOSORT':
            attrs = []
        elif spec.startswith('EXPR:'):
            attrs = ['sort_expr="sk"']
        elif spec == '':
            attrs = ['sort']
        else:
            attrs = ['sort="%s"' % spec]
        if mapping:
            attrs.append('mapping')
        if reverse:
            attrs.append('reverse')
        if batch:
            attrs.append('size=2 start=%d' % batch)
        body = '<dtml-var sequence-item>,' if ktype == 'plain-item' \
            else '<dtml-var id>,'
        t = _t[key] = HTML('<dtml-in %s %s>%s</dtml-in>'
                           % (seqref, ' '.join(attrs), body))
    return t


_t = {}


LONG_N = (9, 10, 11, 19, 20, 21, 33, 64, 100, 257)
LONG_PATTERNS = ('cycle', 'down', 'const', 'mixed')
LONG_SPECS = {'int': ['k', 'k/cmp/desc', 'EXPR:k'],
              'str': ['k', 'k/nocase', 'k/byfn/desc'],
              'pair': ['k,k2', 'k/cmp/desc,k2/cmp/asc'],
              'callint': ['k'], 'nummix': ['k'], 'tuple-item': [''],
              'plain-item': ['', '/cmp/desc']}


def long_syms(pattern, n, m):
    """a list of n key symbols over a domain of m values"""
    if pattern == 'cycle':
        return [i % m for i in range(n)]
    if pattern == 'down':
        return [(n - 1 - i) % m for i in range(n)]
    if pattern == 'const':
        return [0] * n
    x, out = 12345, []
    for _ in range(n):              # a fixed linear congruential sequence
        x = (x * 1103515245 + 12345) % (1 << 31)
        out.append((x >> 8) % m)
    return out


def cases(tier):
    maxn = 4 if tier == 'quick' else 5
    for ktype in DOMAINS:
        for spec in SPECS[ktype]:
            for n in range(0, maxn + 1):
                yield {'ktype': ktype, 'spec': spec, 'n': n}
    # scale: lists far longer than the exhaustive domain
    for ktype, specs in LONG_SPECS.items():
        for spec in specs:
            for n in (LONG_N if tier != 'quick' else LONG_N[:8]):
                for pattern in LONG_PATTERNS:
                    yield {'kind': 'long', 'ktype': ktype, 'spec': spec,
                           'n': n, 'pattern': pattern}


def show(ktype, syms):
    return [repr(DOMAINS[ktype][s]) for s in syms]


def rotate_keys(seq, keys, mapping):
    """moves every element's key attributes to the next element, in place
    (the same objects, in the same list) -> the new keys"""
    def kd(e):
        d = e if mapping else e.__dict__
        return {a: d[a] for a in ('k', 'k2') if a in d}
    olds = [kd(e) for e in seq]
    for i, e in enumerate(seq):
        d = e if mapping else e.__dict__
        for a in ('k', 'k2'):
            d.pop(a, None)
        d.update(olds[i - 1])
    return [keys[i - 1] for i in range(len(seq))]


def by_function(a, b):
    return (a > b) - (a < b)


def render(ktype, syms, spec, mapping, reverse, batch, again=False):
    seq, keys = build(ktype, syms, mapping)
    snap = list(seq)
    kw = {'seq': seq, 'byfn': by_function}
    if 'EXPR:' in spec:
        kw['sk'] = spec.split('EXPR:')[1]
    t = template(spec, mapping, reverse, batch, ktype)
    try:
        out = t(**kw)
        if again:
            # the same template, the same list object, the same element
            # objects - but their keys have changed in the meantime
            keys = rotate_keys(seq, keys, mapping)
            out = t(**kw)
    except Exception as e:
        return e, keys, True
    ids = [int(x) for x in out.split(',') if x != '']
    unchanged = len(seq) == len(snap) and all(a is b for a, b in
                                              zip(seq, snap))
    return ids, keys, unchanged


def judge_one(res, ktype, syms, spec, mapping):
    """All reverse/batch variants of one (list, spec, container)."""
    fields = parse_spec(spec)
    n = len(syms)
    base = None
    for reverse in (0, 1):
        full = None
        for batch in (0, 1, 2):
            got, keys, unchanged = render(ktype, syms, spec, mapping,
                                          reverse, batch)
            case = {'kind': 'one', 'ktype': ktype, 'syms': list(syms),
                    'spec': spec, 'mapping': mapping}
            desc = {'keys': show(ktype, syms), 'spec': spec,
                    'mapping': mapping, 'reverse': reverse, 'batch': batch}
            tag = '%s:%s' % (ktype, spec.replace('EXPR:', 'expr=').replace(
                'X:', 'seqexpr:'))

            def bad(clause, extra=None, sigx=''):
                d = dict(desc)
                d['observed'] = got if not isinstance(got, BaseException) \
                    else repr(got)
                if extra is not None:
                    d['expected'] = extra
                res.violate(clause, '%s:%s%s' % (clause, tag, sigx), d, case)

            if isinstance(got, BaseException) and any(
                    w in spec for w in ('DESC', 'Desc', 'ASC')):
                # an upper-case direction may be refused; if it is accepted
                # it has to mean what it says (judged below)
                continue
            if isinstance(got, BaseException):
                absent = any(ABSENT in k for k in keys)
                bad('exc', None, ':%s%s' % (type(got).__name__,
                                            ':with-none' if absent else ''))
                continue
            if not unchanged:
                bad('input-mutated')
            if ktype == 'plain-item':
                # identities are the values themselves
                vals = [DOMAINS[ktype][s] for s in syms]
                exp = sorted(vals)
                if fields and fields[0][2]:
                    exp = exp[::-1]         # /desc
                if reverse:
                    exp = exp[::-1]
                if batch:
                    # start clamps to the length (C11)
                    exp = exp[-1:] if batch > n else exp[batch - 1:batch + 1]
                if got != exp:
                    bad('order', exp)
                continue
            if batch == 0:
                full = got
                if sorted(got) != list(range(n)):
                    bad('permutation', list(range(n)))
                    continue
                if reverse == 0:
                    base = got
                    # order of consecutive elements
                    for a, b in zip(got, got[1:]):
                        c = compare(keys[a], keys[b], fields)
                        if c is not None and c > 0:
                            bad('order', None, ':absent' if ABSENT in keys[a]
                                or ABSENT in keys[b] else '')
                            break
                    # stability
                    for i in range(n):
                        for j in range(i + 1, n):
                            a, b = got[i], got[j]
                            if compare(keys[a], keys[b], fields) == 0 \
                                    and a > b:
                                bad('stability')
                                break
                        else:
                            continue
                        break
                    if ktype not in ('tuple-item', 'plain-item') and n >= 2:
                        got2, keys2, _u = render(ktype, syms, spec, mapping,
                                                 0, 0, again=True)
                        if isinstance(got2, BaseException) or \
                                sorted(got2) != list(range(n)) or any(
                                    (compare(keys2[a], keys2[b], fields)
                                     or 0) > 0
                                    for a, b in zip(got2, got2[1:])):
                            got = got2
                            bad('order-after-key-change')
                else:
                    if base is not None and got != base[::-1]:
                        bad('reverse', base[::-1])
            else:
                if full is not None:
                    exp = full[batch - 1:batch + 1] if n else []
                    if n and batch > n:
                        exp = full[-1:]       # start clamps to the length
                    if got != exp:
                        bad('batch-window', exp)


def run(case):
    res = Res()
    if case.get('kind') == 'one':
        judge_one(res, case['ktype'], case['syms'], case['spec'],
                  case['mapping'])
        res.nontrivial = True
        return res
    ktype, spec, n = case['ktype'], case['spec'], case['n']
    dom = DOMAINS[ktype]
    if case.get('kind') == 'long':
        syms = long_syms(case['pattern'], n, len(dom))
        for mapping in (0, 1):
            if ktype == 'plain-item' and mapping:
                continue
            judge_one(res, ktype, syms, spec, mapping)
        res.evals = 14
        res.nt_count = 14
        res.outcome = '%s:long' % ktype
        return res
    nt = ev = 0
    for syms in itertools.product(range(len(dom)), repeat=n):
        for mapping in (0, 1):
            if ktype == 'plain-item' and mapping:
                continue
            judge_one(res, ktype, syms, spec, mapping)
            ev += 7
            if n >= 2:
                nt += 7
                if res.sample is None:
                    res.sample = {'keys': show(ktype, syms), 'spec': spec,
                                  'mapping': mapping,
                                  'shown': render(ktype, syms, spec, mapping,
                                                  0, 0)[0]}
    res.evals = ev
    res.nt_count = nt
    res.outcome = '%s:%s' % (ktype, 'n=%d' % n)
    return res


def finalize(tier, agg):
    if agg['nontrivial'] < 2000:
        raise HarnessFault('vacuous: too few non-trivial lists')
    # comparison-model self-test
    f = parse_spec('k/cmp/desc,k2')
    if compare((1, 1), (2, 1), f) != 1 or compare((1, 1), (1, 2), f) != -1 \
            or compare((ABSENT, 1), (1, 1), f) != 1:
        raise HarnessFault('self-test: comparison model')
    return {}
