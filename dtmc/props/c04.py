"""C04 - tainted values are always HTML-escaped when inserted, once.

Configuration space of one dtml-var insertion:
    fmt        none | 15 special formats | 4 string methods | "%s!"
    cfmt       s | 10s | .3s            (EPFS only)
    12 modifiers, each on/off
    size       none | 0..4 ; etc default | "~"
    null= / missing= given or not
    syntax     dtml | ssi | epfs | entity
    access     by name | "x" expression
Enumerated: all 4096 modifier subsets (everything else default) and all
configurations with at most 3 (quick) / 4 (thorough) deviations from the
default (iterative deviation bounding).  Values: '<' inserted at every
position of three carrier strings, wrapped in TaintedString.
"""

import itertools
import re

from ..core import HarnessFault
from ..core import Res

ID = 'C04'
LEVEL = 'exploration'
MANIFEST = {
    'technique': 'exhaustive enumeration of the dtml-var option space (all '
                 '4096 modifier subsets; all configurations within a '
                 'deviation bound) x all marker positions; non-interference '
                 'oracle on the rendered text',
    'text': 'Every subset of the 12 modifiers, and every configuration with '
            '<= 3 (quick) / <= 4 (thorough) deviations from the default over '
            'fmt (15 special + 17 method formats + 8 %-formats), C-format, '
            'modifiers, size/etc, null/missing, syntax (dtml/ssi/epfs/'
            'entity) and access (name/expression), is rendered on the real '
            'code with a TaintedString carrying "<" at every position of '
            'four carriers (one with tab / line-break separators; each time right after the same text was '
            'rendered untainted), plus all written orders of 2 and 3 of 9 '
            'modifiers; the output must contain no "<" other than the '
            '<br /> that newline_to_br inserts, and never "&amp;lt;".',
    'more': 'Also: tainted values handed positionally and by keyword to the wrapped string helpers (StringModuleWrapper / StringFunctionWrapper); a carrier with non-ASCII letters, digits and blanks.',
    'note': 'Trusted: AccessControl.tainted.TaintedString as the taint mark; '
            'the author-supplied texts (etc, null, missing) contain no "<". '
            'structured-text formats (markup generators) are only required '
            'not to leak next to the carrier letters.',
}
RULE = ('all 4096 modifier subsets + all configurations with <= 3 (quick) / '
        '<= 4 (thorough) deviations over the dimensions listed in the module '
        'docstring; each with "<" at every position of the carriers '
        '"qz1234567.5", "q_z %3C\'" and "q\\nz".  A (configuration, value) '
        'run is non-trivial when the rendering succeeded and still shows the '
        'carrier letter q or z (the value really was inserted).')
ASSUMPTIONS = ['an exception instead of output is not a leak (counted '
               'separately as outcome)',
               'a tainted value is a TaintedString passed in the namespace '
               '(what request.taintWrapper produces)']
CASE_CPU_SECONDS = 120.0
CASE_CPU_SECONDS_QUICK = 10.0

MODS = ['html_quote', 'url_quote', 'url_quote_plus', 'url_unquote',
        'url_unquote_plus', 'newline_to_br', 'lower', 'upper', 'capitalize',
        'spacify', 'thousands_commas', 'sql_quote']
SPECIAL = ['collection-length', 'comma-numeric', 'dollars-and-cents',
           'dollars-and-cents-with-commas', 'dollars-with-commas',
           'html-quote', 'multi-line', 'restructured-text', 'sql-quote',
           'structured-text', 'url-quote', 'url-quote-plus', 'url-unquote',
           'url-unquote-plus', 'whole-dollars']
METHODS = ['upper', 'lower', 'strip', 'title', 'casefold', 'swapcase',
           'capitalize', 'lstrip', 'rstrip', 'split', 'rsplit', 'splitlines',
           'format', 'expandtabs', 'encode', 'isdigit', 'zfill']
CARRIERS = ['qz1234567.5', "q_z %3C'", 'q\nz', 'qq\nzz\tqz',
            # letters, digits and blanks beyond ASCII
            'q\xc9z\xdf\xa0\u03a3\uff11']

# atoms: (dimension, alternative)
CFMTS = ['%s!', '%d', '%.2f', '$%.2f each', '%x', '%c', '%5s', '[%r]']
ATOMS = [('fmt', f) for f in SPECIAL + METHODS + CFMTS] + \
        [('cfmt', c) for c in ('10s', '.3s')] + \
        [('mod:' + m, 1) for m in MODS] + \
        [('size', n) for n in range(0, 7)] + \
        [('etc', '~'), ('null', 1), ('missing', 1)] + \
        [('syntax', s) for s in ('ssi', 'epfs', 'entity')] + \
        [('access', 'expr')]


def values():
    for c in CARRIERS:
        for i in range(len(c) + 1):
            yield c[:i] + '<' + c[i:]


VALUES = list(values())


def config(atoms):
    cfg = {'fmt': None, 'cfmt': 's', 'mods': [], 'size': None, 'etc': None,
           'null': 0, 'missing': 0, 'syntax': 'dtml', 'access': 'name'}
    for dim, alt in atoms:
        if dim.startswith('mod:'):
            cfg['mods'].append(dim[4:])
        else:
            cfg[dim] = alt
    return cfg


def source(cfg):
    """-> (class name, source) or None if the combination cannot be
    written"""
    sx = cfg['syntax']
    if cfg['cfmt'] != 's':
        if sx in ('ssi', 'entity'):
            return None
        sx = 'epfs'
    if sx == 'entity':
        if cfg['fmt'] or cfg['size'] is not None or cfg['etc'] or \
                cfg['null'] or cfg['missing'] or cfg['access'] != 'name':
            return None
        if cfg['mods']:
            return 'HTML', '&dtml.%s-x;' % '.'.join(cfg['mods'])
        return 'HTML', '&dtml-x;'
    opts = []
    if cfg['fmt']:
        if '%' in cfg['fmt'] and sx == 'epfs':
            return None
        opts.append('fmt="%s"' % cfg['fmt'])
    opts += cfg['mods']
    if cfg['size'] is not None:
        opts.append('size=%d' % cfg['size'])
    if cfg['etc']:
        opts.append('etc="%s"' % cfg['etc'])
    if cfg['null']:
        opts.append('null="N"')
    if cfg['missing']:
        opts.append('missing="M"')
    ref = 'x' if cfg['access'] == 'name' else 'expr="x"'
    body = ' '.join([ref] + opts)
    if sx == 'dtml':
        return 'HTML', '<dtml-var %s>' % body
    if sx == 'ssi':
        return 'HTML', '<!--#var %s-->' % body
    if cfg['access'] == 'name':
        return 'String', '%%(%s)%s' % (body, cfg['cfmt'])
    return 'String', '%%(var %s)%s' % (body, cfg['cfmt'])


def cases(tier):
    for i in range(len(HELPER_EXPRS)):
        yield {'helper': i}
    maxdev = 3 if tier == 'quick' else 4
    seen = set()
    # all modifier subsets
    for k in range(0, len(MODS) + 1):
        for sub in itertools.combinations(MODS, k):
            atoms = [['mod:' + m, 1] for m in sub]
            seen.add(tuple(map(tuple, atoms)))
            yield {'atoms': atoms}
    # modifiers written in every order (the order in the tag must not
    # matter, also not for the taint mark)
    order_mods = ['html_quote', 'url_quote', 'url_unquote', 'url_unquote_plus',
                  'newline_to_br', 'spacify', 'sql_quote', 'thousands_commas',
                  'lower']
    for k in (2, 3):
        for perm in itertools.permutations(order_mods, k):
            if list(perm) == sorted(perm, key=MODS.index):
                continue                  # canonical order: covered above
            yield {'atoms': [['mod:' + m, 1] for m in perm]}
            if k == 2:
                yield {'atoms': [['mod:' + m, 1] for m in perm] +
                       [['syntax', 'entity']]}
    for k in range(1, maxdev + 1):
        for combo in itertools.combinations(ATOMS, k):
            dims = [a[0] for a in combo]
            if len(set(dims)) != k:
                continue
            if tuple(combo) in seen:
                continue
            if source(config(combo)) is None:
                continue
            yield {'atoms': [list(a) for a in combo]}


_t = {}


def tmpl(cls, src):
    t = _t.get((cls, src))
    if t is None:
        import DocumentTemplate
        if len(_t) > 30000:
            _t.clear()
        t = _t[(cls, src)] = getattr(DocumentTemplate, cls)(src)
    return t


def render(cfg, value, tainted=True):
    from AccessControl.tainted import TaintedString
    cs = source(cfg)
    try:
        return tmpl(*cs)(x=TaintedString(value) if tainted else value)
    except Exception as e:
        return e


def control_value(v):
    """same length, same shape, nothing that is or can become a '<'"""
    return v.replace('<', 'w').replace('%3C', '%41')


def as_str(out):
    if isinstance(out, bytes):
        return out.decode('latin-1')
    return out if isinstance(out, str) else None


def leak(cfg, out, ctl=None):
    """None, or a short description of the leak.

    Configurations in which no tag inserts markup: any '<' is a leak.
    Configurations that insert break tags (newline_to_br, multi-line), which
    later stages may transform (upper-case, cut by size=, blank -> '+'), or
    that generate markup (structured text): the rendering of the control
    value (marker replaced by a letter) shows how many '<' the tag itself
    contributes; a surplus in the real rendering comes from the value."""
    text = as_str(out)
    if text is None:
        return None
    markup = 'newline_to_br' in cfg['mods'] or cfg['fmt'] in (
        'multi-line', 'structured-text', 'restructured-text')
    if not markup:
        if '<' in text:
            return 'raw'
    else:
        base = as_str(ctl)
        if base is not None and text.count('<') > base.count('<'):
            return 'raw'
    if '&amp;lt;' in text:
        return 'double'
    return None


def atom_names(atoms):
    return '+'.join('%s=%s' % a if not a[0].startswith('mod:') else a[0][4:]
                    for a in atoms)


HELPER_EXPRS = [
    'sw.capwords(x)', 'sw.capwords(s=x)', "sw.capwords(x, ' ')",
    "sw.capwords(s=x, sep=' ')", "sw.capwords('a b', x)",
    "sw.capwords('a<b', sep=x)", 'fcat(x, x)', "fcat(x, b='q')",
    "fcat(a='q', b=x)", "fcat('q', b=x)", 'fcat(a=x, b=x)', 'fid(x)',
    'fid(s=x)', 'fcat(fid(s=x), fid(x))', "fcat(sw.capwords(s=x), 'z')",
]
HELPER_OPTS = ['', ' html_quote', ' upper', ' size=4', ' url_unquote']


def run_helper(res, case):
    """tainted values handed to the wrapped string helpers (the `string`
    module wrapper and wrappers of plain functions), positionally and by
    keyword: the result is inserted escaped, once"""
    from AccessControl.tainted import TaintedString
    from DocumentTemplate import HTML
    from DocumentTemplate.DT_Util import StringFunctionWrapper
    from DocumentTemplate.DT_Util import StringModuleWrapper
    expr = HELPER_EXPRS[case['helper']]
    ns = {'sw': StringModuleWrapper(),
          'fcat': StringFunctionWrapper(lambda a, b='': a + '|' + b),
          'fid': StringFunctionWrapper(lambda s: s[:])}
    n = nt = 0
    for opt in HELPER_OPTS:
        src = '<dtml-var "%s"%s>' % (expr, opt)
        t = HTML(src)
        for v in VALUES:
            ctl = t(x=control_value(v), **ns)
            try:
                out = t(x=TaintedString(v), **ns)
            except Exception as e:
                res.count('helper:exception:' + type(e).__name__)
                continue
            n += 1
            nt += 1
            why = None
            if out.count('<') > ctl.count('<'):
                why = 'raw'
            elif '&amp;lt;' in out:
                why = 'double'
            if why:
                res.violate('no-raw-lt' if why == 'raw' else 'escaped-once',
                            'leak:%s:helper:%s%s' % (
                                why, 'keyword' if '=x' in expr else
                                'positional', opt.replace(' ', ':')),
                            {'source': src, 'value': v, 'output': out},
                            {'helper': case['helper'], 'value': v})
                break
    res.evals = n
    res.nt_count = nt
    res.outcome = 'helper'
    return res


def run(case):
    res = Res()
    if 'helper' in case:
        return run_helper(res, case)
    atoms = [tuple(a) for a in case['atoms']]
    cfg = config(atoms)
    cs = source(cfg)
    vals = [case['value']] if 'value' in case else VALUES
    n = nt = 0
    excs = 0
    for v in vals:
        # the same text first passes as an ordinary (trusted) string: a
        # result remembered for it must not be handed to the tainted value
        render(cfg, v, tainted=False)
        out = render(cfg, v)
        n += 1
        if isinstance(out, BaseException):
            excs += 1
            continue
        low = out.lower() if isinstance(out, str) else ''
        if 'q' in low or 'z' in low:
            nt += 1
        why = leak(cfg, out, render(cfg, control_value(v)))
        if why:
            # smallest cause: the smallest sub-configuration that leaks
            cause = None
            for k in range(1, len(atoms)):
                for sub in itertools.combinations(atoms, k):
                    c1 = config(sub)
                    if source(c1) is None:
                        continue
                    if leak(c1, render(c1, v),
                            render(c1, control_value(v))) == why:
                        cause = atom_names(sub)
                        break
                if cause:
                    break
            if cause is None:
                cause = atom_names(atoms) or 'default'
            res.violate('no-raw-lt' if why == 'raw' else 'escaped-once',
                        'leak:%s:%s' % (why, cause),
                        {'source': cs[1], 'value': v, 'output': out,
                         'config': cfg},
                        {'atoms': case['atoms'], 'value': v})
    # control: the same configuration on an untainted value
    ctl = render(cfg, VALUES[0].replace('<', ''), tainted=False)
    res.evals = n
    res.nt_count = nt
    if nt:
        res.sample = {'source': cs[1], 'value': vals[0],
                      'output': repr(render(cfg, vals[0]))}
    res.outcome = 'dev=%d:%s' % (
        len(atoms) if len(atoms) <= 4 else 5,
        'all-exc' if excs == n else
        'ctl-exc' if isinstance(ctl, BaseException) else 'rendered')
    return res


def finalize(tier, agg):
    if agg['nontrivial'] < 10000:
        raise HarnessFault('vacuous: too few inserted values')
    # oracle self-test
    br = config([('mod:newline_to_br', 1)])
    if leak(config([]), 'q<z') != 'raw' or \
            leak(br, 'q<br />\nz', 'q<br />\nz') or \
            leak(br, 'q<<br />\nz', 'qw<br />\nz') != 'raw' or \
            leak(config([]), 'q&amp;lt;z') != 'double':
        raise HarnessFault('self-test: leak detector')
    return {'values': VALUES[:4] + ['...'], 'n_values': len(VALUES)}
