"""C01 - text outside tags is reproduced verbatim, in order, and rendering
composes.

Families
  free    token strings over a near-tag alphabet that the conservative
          locator (dtmc/lex.py) calls definitely tag-free: render to
          themselves, for both template classes
  tagged  all abstract templates within a tag/depth bound over {var, if/else,
          in/else, with, let, try/except, comment}; text slots filled from a
          near-tag fragment alphabet (deviation-bounded: at most D slots
          differ from their plain default); three syntaxes, with/without a
          line end after block tags; four namespaces.  Expected output: the
          reference interpreter (text verbatim, the one line-end rule)
  split   for every kept tagged source and every offset between top-level
          nodes or inside top-level text: render(S) == render(S[:i]) +
          render(S[i:]) (except the stated line-end case)
"""

import itertools
import os
import json
import re

from .. import ast
from .. import lex
from .. import refsem
from ..ast import N
from ..ast import T
from ..core import HarnessFault
from ..core import Res

ID = 'C01'
LEVEL = 'exploration'
MANIFEST = {
    'technique': 'exhaustive enumeration of tag-free token strings and of '
                 'abstract templates with near-tag text fragments in every '
                 'slot (deviation-bounded) x syntaxes x namespaces x split '
                 'points; compared with a reference interpreter and with the '
                 'concatenation of the renderings of the two halves',
    'text': 'All token strings of length <= 3 (quick) / <= 4 (thorough) over '
            'a 25-token near-tag alphabet that an independent conservative '
            'locator calls tag-free must render to themselves (HTML and '
            'String).  All templates with <= 2 (quick) / <= 3 (thorough) '
            'tags, depth <= 2, over seven tag kinds, with every text slot '
            'drawn from a 20-fragment (incl. the empty text and blanks only) near-tag / near-line-end alphabet (at most 2 slots '
            'deviating at once), printed in dtml/SSI/EPFS syntax with and '
            'without a newline after block tags, rendered with four '
            'namespaces, must equal the reference rendering (text verbatim, '
            'once per rendered body, only [ \\t]*\\n after a block tag '
            'dropped); and for every top-level split point the rendering of '
            'the whole must equal the concatenation of the renderings of '
            'the halves.  File-based templates (File / HTMLFile) render as '
            'the string-based template of the text of their file, also with '
            'literal text beyond ASCII.',
    'more': 'Also: chains of 3 (quick) / 3-4 (thorough) nested blocks over every combination of 8 block kinds with line ends after every tag; a try block whose else section fails. Conditions whose answer changes with every evaluation; nameless entity fragments (&dtml.x-; &dtml-;) are text.',
    'note': 'Trusted: dtmc/lex.py (40 lines; the oracle is silent wherever '
            'it is not certain), dtmc/refsem.py and the printers of '
            'dtmc/ast.py.',
}
DYNAMIC = True        # few heavy cases: dynamic load balancing
RULE = ('families free / tagged / split as in the module docstring.  A '
        'free string is non-trivial when it contains a near-tag character '
        '(< & % ; > ") ; a tagged template when at least one slot holds a '
        'near-tag fragment or a newline.')
ASSUMPTIONS = ['sources that are not cleanly tagged (a text fragment fuses '
               'with a neighbouring tag) are discarded and counted; they '
               'are covered by C06']
CASE_CPU_SECONDS = 300.0
CASE_CPU_SECONDS_QUICK = 200.0

FREE_TOK = {
    'HTML': ['<', '<d', '<dtml', '<dtml-', '</dtml-', '<!--', '<!--#', '-->',
             '>', '&', '&dtml', '&dtml-', '&dtml.', ';', '%', '%(', ')',
             ')s', '"', '\n', ' ', 'x', '&dtml-x', '&dtml.q-x', '\r',
             '&dtml.q-', '-'],
    'String': ['%', '%(', ')', ')s', ')[', ')]', '%%', '(', 'x)', '<', '<dtml-',
               '>', '&dtml-', ';', '"', '\n', ' ', 'x', '[', ']', 's', '!',
               'var x', '-', '+', '#', 'S', '5', '.'],
}
FRAGS = ['<', '<d', '<!--', '&dt', '%', '"', "'", '\n', ' \n', 'ab',
         '\t \n', '\r\n', '\xa0\n', '\x0c\n', '&dtml-', '&dtml.u', ';',
         '', ' ', ' \t',       # '' = the slot is empty; blanks only
         '&dtml.u-;', '&dtml-;',
         '%(a) b', '%(a)-s', '%(a)#x ', '50%(b) of']
NAMESPACES = [
    {'x': ['lit', 1], 'seq': ['seq', 'list', [['lit', 7], ['lit', 8]]]},
    {'x': ['lit', 0], 'seq': ['seq', 'list', [['lit', 7], ['lit', 8]]]},
    {'x': ['lit', 1], 'seq': ['seq', 'list', []]},
    {'x': ['lit', 0], 'seq': ['seq', 'list', []]},
    # a condition whose answer changes from one evaluation to the next:
    # every block asks for itself
    {'x': ['probeseq', 'x', [['lit', 1], ['lit', 0], ['lit', 1],
                             ['lit', 0], ['lit', 1]]],
     'seq': ['seq', 'list', [['lit', 7], ['lit', 8]]]},
]
COMMON = {'v': ['lit', 'V'], 'obj': ['obj', {'oa': ['lit', 'OA']}],
          'boom': ['raiser', 'b', 'HA', 'm']}


# ---------------------------------------------------------------- shapes
# a shape is an AST whose text nodes are ['text', ['slot', k]]

class Slots:
    def __init__(self):
        self.n = 0

    def new(self):
        self.n += 1
        return ['text', ['slot', self.n - 1]]


def gen_seq(budget, depth):
    """all node sequences using at most `budget` tags (without texts)"""
    yield []
    if budget <= 0:
        return
    for first, used in gen_node(budget, depth):
        for rest in gen_seq(budget - used, depth):
            yield [first] + rest


def gen_node(budget, depth):
    yield ['var', N('v'), []], 1
    yield ['ent', 'v', ['html_quote']], 1       # &dtml-v; (HTML syntaxes)
    if depth <= 0:
        return
    for inner in gen_seq(budget - 1, depth - 1):
        used = 1 + ast.count_tags(inner)
        yield ['if', [[N('x'), inner]], None], used
        if not inner:
            # if / elif / else: the elif condition is true
            yield ['if', [[N('x'), []], [N('v'), []]], None], used
        yield ['in', N('seq'), inner, None, []], used
        yield ['with', N('obj'), inner, []], used
        yield ['let', [['z', N('v')]], inner], used
        yield ['try', inner, [], None], used
        yield ['try', inner + [BOOM], [], None], used
        if not inner:
            # the else section fails: its text so far is lost, the
            # handler's text is not shown, the error goes on
            yield ['tryelse', inner], used
        yield ['comment', inner], used


BOOM = ['var', N('boom'), []]


def interleave(nodes, slots):
    """text slot before, between and after the nodes; recurse in bodies"""
    out = [slots.new()]
    for n in nodes:
        out.append(fill(n, slots))
        out.append(slots.new())
    return out


def fill(n, slots):
    k = n[0]
    if k in ('var', 'ent'):
        return n
    if k == 'if':
        return ['if', [[r, interleave(b, slots)] for r, b in n[1]],
                [slots.new()]]
    if k == 'in':
        return ['in', n[1], interleave(n[2], slots), [slots.new()], n[4]]
    if k == 'with':
        return ['with', n[1], interleave(n[2], slots), n[3]]
    if k == 'let':
        return ['let', n[1], interleave(n[2], slots)]
    if k == 'try':
        return ['try', interleave(n[1], slots), [[[], [slots.new()]]], None]
    if k == 'tryelse':
        return ['try', interleave(n[1], slots), [[[], [slots.new()]]],
                [slots.new(), BOOM, slots.new()]]
    if k == 'comment':
        return ['comment', interleave(n[1], slots)]
    raise ValueError(k)


def shapes(maxtags, depth):
    for seq in gen_seq(maxtags, depth):
        if not seq:
            continue
        s = Slots()
        yield interleave(seq, s), s.n


def instantiate(shape, texts):
    def walk(x):
        if isinstance(x, list):
            if len(x) == 2 and x[0] == 'text' and isinstance(x[1], list) \
                    and x[1][:1] == ['slot']:
                return ['text', texts[x[1][1]]]
            return [walk(y) for y in x]
        return x
    return walk(shape)


# ---------------------------------------------------------------- the
# line-end rule applied to the abstract template (what the reference sees)

EOL = re.compile(r'[ \t]*\n')
BLOCKS = ('if', 'unless', 'in', 'with', 'let', 'try', 'tryf', 'raise',
          'comment')


def strip_first(body):
    """a body directly follows a block open/continuation tag"""
    if body and body[0][0] == 'text':
        m = EOL.match(body[0][1])
        if m:
            body = [['text', body[0][1][m.end():]]] + body[1:]
    return body


def apply_eol(nodes, after_edge=False):
    out = []
    for n in nodes:
        k = n[0]
        if k == 'text':
            s = n[1]
            if after_edge:
                m = EOL.match(s)
                if m:
                    s = s[m.end():]
            out.append(['text', s])
            after_edge = False
            continue
        after_edge = k in BLOCKS
        if k == 'if':
            n = ['if', [[r, apply_eol(b, True)] for r, b in n[1]],
                 None if n[2] is None else apply_eol(n[2], True)]
        elif k == 'in':
            n = ['in', n[1], apply_eol(n[2], True),
                 None if n[3] is None else apply_eol(n[3], True), n[4]]
        elif k == 'with':
            n = ['with', n[1], apply_eol(n[2], True), n[3]]
        elif k == 'let':
            n = ['let', n[1], apply_eol(n[2], True)]
        elif k == 'try':
            n = ['try', apply_eol(n[1], True),
                 [[h, apply_eol(b, True)] for h, b in n[2]],
                 None if n[3] is None else apply_eol(n[3], True)]
        elif k == 'comment':
            n = ['comment', apply_eol(n[1], True)]
        out.append(n)
    return out


# ---------------------------------------------------------------- cases

# sources for the file-based template classes: literal text of every kind
# (also beyond ASCII and Latin-1) alone and around / inside tags
FILE_TEXTS = ['plain', 'caf\xe9', '\u20ac 5', 'na\xefve \U0001F600 x', '\xa0',
              'a\nb', '50% <b> &amp; "q"']
FILE_SHAPES = {
    'HTML': ['%s', '%s<dtml-var v>%s', '<dtml-if x>%s\n<dtml-else>%s</dtml-if>'
             '%s', '<dtml-in seq>%s&dtml-sequence-item;</dtml-in>%s',
             '<!--#var v-->%s'],
    'String': ['%s', '%s%%(v)s%s', '%%(if x)[%s\n%%(else x)[%s%%(if x)]%s',
               '%%(in seq)[%s%%(sequence-item)s%%(in seq)]%s'],
}


def file_sources(cls):
    for shape in FILE_SHAPES[cls]:
        k = shape.count('%s')
        for texts in itertools.product(FILE_TEXTS, repeat=min(k, 2)):
            texts = (texts + (FILE_TEXTS[1],) * k)[:k]
            yield shape % texts


def run_file(res, case):
    """A file-based template renders as the string-based template made from
    the text of the file (the file is written and read with the platform's
    default text encoding)."""
    import shutil
    import tempfile
    import DocumentTemplate
    from DocumentTemplate.DT_String import File
    from ..probes import World
    cls = case['cls']
    fcls = File if cls == 'String' else DocumentTemplate.HTMLFile
    d = tempfile.mkdtemp(prefix='dtmc-c01.')
    n = 0
    try:
        for i, src in enumerate(file_sources(cls)):
            path = os.path.join(d, 't%d.dtml' % i)
            try:
                with open(path, 'w', newline='') as f:
                    f.write(src)
            except UnicodeEncodeError:
                continue        # not a text of this platform's default codec
            for ns in NAMESPACES[:2]:
                outs = []
                for make in (lambda: getattr(DocumentTemplate, cls)(src),
                             lambda: fcls(path)):
                    built = World('impl').build_ns(dict(COMMON, **ns))
                    try:
                        outs.append(make()(**built))
                    except Exception as e:
                        outs.append('EXC ' + type(e).__name__)
                n += 1
                if outs[0] != outs[1]:
                    res.violate('verbatim', 'file:%s' % cls,
                                {'source': src, 'string_based': outs[0],
                                 'file_based': outs[1]})
    finally:
        shutil.rmtree(d, ignore_errors=True)
    res.evals = n
    res.nt_count = n


def cases(tier):
    n = 3 if tier == 'quick' else 4
    for cls in ('HTML', 'String'):
        yield {'fam': 'file', 'cls': cls}
    for cls in ('HTML', 'String'):
        toks = FREE_TOK[cls]
        for a in range(len(toks)):
            yield {'fam': 'free', 'cls': cls, 'first': a, 'n': n}
    # (max tags, max deviating slots, split points up to this many
    #  deviating slots)
    if tier == 'quick':
        plan = [(1, 2, 1), (2, 1, 0)]
    else:
        plan = [(2, 2, 1), (3, 1, 0)]
    for maxtags, dev, splitdev in plan:
        for si, (shape, nslots) in enumerate(shapes(maxtags, 2)):
            if (maxtags, dev, splitdev) == plan[1] and \
                    ast.count_tags(shape) <= plan[0][0]:
                continue                  # already covered more deeply
            for slot0 in range(-1, nslots):
                yield {'fam': 'tagged', 'shape': si, 'maxtags': maxtags,
                       'dev': dev, 'slot0': slot0, 'splitdev': splitdev}


    # deep nesting: chains of 3 (quick) / 3-4 (thorough) blocks, one inside
    # the other, over every combination of block kinds
    for depth in ((3,) if tier == 'quick' else (3, 4)):
        for ci in range(len(DEEP_KINDS) ** depth):
            yield {'fam': 'deep', 'depth': depth, 'chain': ci, 'tier': tier}


DEEP_KINDS = ('if', 'in', 'with', 'let', 'try', 'tryboom', 'comment',
              'ifelse')


def deep_shape(depth, ci):
    kinds = []
    for _ in range(depth):
        kinds.append(DEEP_KINDS[ci % len(DEEP_KINDS)])
        ci //= len(DEEP_KINDS)
    inner = [['var', N('v'), []]]
    for k in reversed(kinds):
        if k == 'if':
            inner = [['if', [[N('x'), inner]], None]]
        elif k == 'ifelse':
            inner = [['if', [[N('nope'), []]], inner]]
        elif k == 'in':
            inner = [['in', N('seq'), inner, None, []]]
        elif k == 'with':
            inner = [['with', N('obj'), inner, []]]
        elif k == 'let':
            inner = [['let', [['z', N('v')]], inner]]
        elif k == 'try':
            inner = [['try', inner, [], None]]
        elif k == 'tryboom':
            inner = [['try', inner + [BOOM], [], None]]
        else:
            inner = [['comment', inner]]
    s = Slots()
    return interleave_deep(inner, s), s.n


def interleave_deep(nodes, slots):
    out = [slots.new()]
    for n in nodes:
        if n[0] == 'if' and n[2] is not None:
            # the chain continues in the else branch
            out.append(['if', [[r, [slots.new()]] for r, b in n[1]],
                        interleave_deep(n[2], slots)])
        elif n[0] in ('var', 'ent'):
            out.append(n)
        elif n[0] == 'if':
            out.append(['if', [[r, interleave_deep(b, slots)]
                               for r, b in n[1]], [slots.new()]])
        elif n[0] == 'in':
            out.append(['in', n[1], interleave_deep(n[2], slots),
                        [slots.new()], n[4]])
        elif n[0] == 'with':
            out.append(['with', n[1], interleave_deep(n[2], slots), n[3]])
        elif n[0] == 'let':
            out.append(['let', n[1], interleave_deep(n[2], slots)])
        elif n[0] == 'try':
            out.append(['try', interleave_deep(n[1], slots),
                        [[[], [slots.new()]]], None])
        else:
            out.append(['comment', interleave_deep(n[1], slots)])
        out.append(slots.new())
    return out


def run_deep(res, case):
    shape, nslots = deep_shape(case['depth'], case['chain'])
    default = ['t%d' % i for i in range(nslots)]
    n = nt = 0
    variants_ = [default]
    for frag in (('\n',) if case.get('tier') == 'quick'
                 else ('\n', ' \n', '<', '&dt')):
        # the same fragment in every slot (line ends after every tag)
        variants_.append([frag + 'u%d' % i for i in range(nslots)])
    for texts in variants_:
        nodes = instantiate(shape, texts)
        k = check_template(res, nodes, {'fam': 'one-tagged', 'nodes': nodes},
                           do_split=texts is default,
                           stateful=texts is default)
        n += k
        nt += k
        if res.sample is None:
            res.sample = {'source': ast.to_source(nodes, 'dtml', {'eol': 1})}
    res.evals = n
    res.nt_count = nt


_shape_cache = {}


def get_shape(maxtags, si):
    if maxtags not in _shape_cache:
        _shape_cache[maxtags] = list(shapes(maxtags, 2))
    return _shape_cache[maxtags][si]


def render(cls, src, ns):
    import DocumentTemplate
    from ..probes import World
    w = World('impl')
    built = w.build_ns(ns)
    try:
        return getattr(DocumentTemplate, cls)(src)(**built)
    except Exception as e:
        return e


def run_free(res, case):
    cls = case['cls']
    toks = FREE_TOK[cls]
    n = nt = 0
    skipped = 0
    first = toks[case['first']]
    for k in range(0, case['n']):
        for rest in itertools.product(toks, repeat=k):
            src = first + ''.join(rest)
            if not lex.definitely_tag_free(cls, src):
                skipped += 1
                continue
            # the same text is first compiled (and, if it compiles,
            # rendered) as a template of the *other* syntax class: a
            # tag-free source renders to itself whatever was compiled before
            render('String' if cls == 'HTML' else 'HTML', src,
                   {'x': ['lit', 'X']})
            got = render(cls, src, {})
            n += 1
            if any(c in src for c in '<&%;>"'):
                nt += 1
                if res.sample is None and k == case['n'] - 1:
                    res.sample = {'class': cls, 'source': src}
            if got != src:
                kind = 'exc:' + type(got).__name__ \
                    if isinstance(got, BaseException) else 'altered'
                res.violate('tag-free-renders-to-itself',
                            'free:%s:%s' % (kind, cls),
                            {'source': src, 'got': repr(got)},
                            {'fam': 'one-free', 'cls': cls, 'src': src})
    res.evals = n
    res.nt_count = nt
    res.count('free:not-definitely-tag-free', skipped)


def variants(nodes):
    """(syntax, style) pairs"""
    has_ent = '"ent"' in json.dumps(nodes)
    for sx in ('dtml', 'ssi', 'epfs'):
        if sx == 'epfs' and has_ent:
            continue            # entity references are HTML syntax only
        for eol in (0, 1):
            yield sx, {'eol': eol}


def check_template(res, nodes, sub, do_split=True, stateful=False):
    """tagged + split clauses for one instantiated template"""
    n = 0
    for sx, style in variants(nodes):
        cls = 'String' if sx == 'epfs' else 'HTML'
        src, spans = ast.to_source_spans(nodes, sx, style)
        if not lex.cleanly_tagged(cls, src, spans):
            res.count('tagged:not-cleanly-tagged')
            continue
        effective = nodes if style['eol'] else apply_eol(nodes)
        # with eol style the printer's own newline is what gets dropped
        top = top_level_offsets(nodes, sx, style)
        for ni, base in enumerate(NAMESPACES):
            if ni >= 4 and not stateful:
                continue
            ns = dict(COMMON)
            ns.update(base)
            got = render(cls, src, ns)
            n += 1
            interp = refsem.Interp()
            from ..probes import World
            w = World('ref')
            try:
                exp = interp.call_top(effective, kw=w.build_ns(ns))
            except Exception as e:
                exp = e
            if interp.unspec:
                res.count('tagged:unspec')
                continue
            same = got == exp or (
                isinstance(got, BaseException) and
                isinstance(exp, BaseException) and
                type(got).__name__ == type(exp).__name__)
            if not same:
                res.violate('verbatim', 'tagged:%s:%s' % (
                    'exc' if isinstance(got, BaseException) else 'text',
                    sx + (':eol' if style['eol'] else '')),
                    {'source': src, 'namespace': ni, 'got': repr(got),
                     'expected': repr(exp)}, sub)
                continue
            if not do_split or isinstance(got, BaseException) or ni >= 4:
                # (composition is stated for namespaces, not for values that
                # change with every use)
                continue
            for i in top:
                a, b = src[:i], src[i:]
                if in_dropped_line_end(src, i, spans):
                    res.count('split:stated-exception')
                    continue
                ra, rb = render(cls, a, ns), render(cls, b, ns)
                n += 2
                if isinstance(ra, BaseException) or \
                        isinstance(rb, BaseException) or ra + rb != got:
                    res.violate('composition', 'split:%s' % sx,
                                {'source': src, 'split_at': i,
                                 'whole': repr(got), 'first': repr(ra),
                                 'second': repr(rb), 'namespace': ni}, sub)
                    break
    return n


def in_dropped_line_end(src, i, spans):
    """the stated exception: the second half starts with (the rest of) a
    [ \t]*\n run that directly follows a block tag"""
    for start, end, edge in spans:
        if edge and end <= i:
            m = EOL.match(src, end)
            if m and i < m.end():
                return True
    return False


def top_level_offsets(nodes, sx, style):
    """offsets between top-level nodes and inside top-level text"""
    offs = set()
    pos = 0
    for node in nodes:
        s = ast.to_source([node], sx, style)
        if node[0] == 'text':
            for i in range(len(s) + 1):
                offs.add(pos + i)
        else:
            offs.add(pos)
            offs.add(pos + len(s))
        pos += len(s)
    return sorted(offs)


def run_tagged(res, case):
    shape, nslots = get_shape(case['maxtags'], case['shape'])
    default = ['t%d' % i for i in range(nslots)]
    n = nt = 0
    # slot0 = -1: no deviation; else: the first deviating slot is slot0
    slot0 = case['slot0']
    combos = [()] if slot0 < 0 else []
    for k in range(1, case['dev'] + 1):
        if slot0 < 0:
            break
        for slots in itertools.combinations(range(nslots), k):
            if slots[0] != slot0:
                continue
            for frs in itertools.product(range(len(FRAGS)), repeat=k):
                combos.append(tuple(zip(slots, frs)))
    for combo in combos:
        texts = list(default)
        for slot, fr in combo:
            texts[slot] = FRAGS[fr]
        nodes = instantiate(shape, texts)
        sub = {'fam': 'one-tagged', 'nodes': nodes}
        k = check_template(res, nodes, sub,
                           do_split=len(combo) <= case.get('splitdev', 1),
                           stateful=not combo)
        n += k
        if combo:
            nt += k
            if res.sample is None and len(combo) == 2:
                res.sample = {'source': ast.to_source(nodes, 'dtml',
                                                      {'eol': 1})}
    res.evals = n
    res.nt_count = nt


def run(case):
    res = Res()
    fam = case['fam']
    if fam == 'free':
        run_free(res, case)
    elif fam == 'deep':
        run_deep(res, case)
    elif fam == 'tagged':
        run_tagged(res, case)
    elif fam == 'file':
        run_file(res, case)
    elif fam == 'one-free':
        got = render(case['cls'], case['src'], {})
        if got != case['src']:
            res.violate('tag-free-renders-to-itself', 'free:replay',
                        {'source': case['src'], 'got': repr(got)})
        res.nontrivial = True
    else:
        check_template(res, case['nodes'], case, stateful=True)
        res.nontrivial = True
    res.outcome = fam
    return res


def finalize(tier, agg):
    c = agg['counters']
    if agg['nontrivial'] < 5000:
        raise HarnessFault('vacuous: too few non-trivial sources')
    # self-tests of the locator and of the line-end model
    if lex.definitely_tag_free('HTML', '<dtml-var x>') or \
            not lex.definitely_tag_free('HTML', 'a <dtml- b &dtml c') or \
            lex.definitely_tag_free('String', 'a %(x)s'):
        raise HarnessFault('self-test: locator')
    e = apply_eol([['if', [[N('x'), [T(' \n \nq')]]], None], T('\nz')])
    if e != [['if', [[N('x'), [T(' \nq')]]], None], T('z')]:
        raise HarnessFault('self-test: line-end model %r' % (e,))
    return {'discarded_not_tag_free': c.get('free:not-definitely-tag-free', 0),
            'discarded_not_cleanly_tagged':
                c.get('tagged:not-cleanly-tagged', 0),
            'split_exceptions': c.get('split:stated-exception', 0)}
