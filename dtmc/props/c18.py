"""C18 - concurrent renders of one shared template give sequential results.

2 (or 3) threads render *the same* template object, each with its own
namespace; every interleaving at line granularity inside the package's code
with at most c preemptions is executed under the deterministic scheduler of
dtmc/sched.py (stateless exploration, iterative preemption bounding).  Two
families: steady (template cooked before the threads start) and compile
(fresh template: the first calls race through cook() and the compile lock).
Oracle: each thread's result equals the result of running that thread's
call alone on a fresh copy of the template; no deadlock.
"""

import os

from .. import sched
from ..core import CaseTimeout
from ..core import HarnessFault
from ..core import Res
from ..fingerprint import digest
from ..fingerprint import fingerprint

ID = 'C18'
LEVEL = 'model_checking'
MANIFEST = {
    'technique': 'stateless model checking of the implementation under a '
                 'controlled scheduler: every thread interleaving at line '
                 'granularity inside the package with at most c preemptions '
                 '(iterative preemption bounding, CHESS scheme); per-thread '
                 'results compared with sequential runs',
    'text': 'For 21 templates (one per block tag, incl. sort_expr with '
            'per-thread keys, batched in, with only, try/raise, tree) two real threads '
            'render the same template object with thread-specific '
            'namespaces under a scheduler that owns every line event in '
            'src/DocumentTemplate and src/TreeDisplay: all schedules with '
            '<= 1 preemption (steady state: all templates; compile race: 5 '
            'templates in quick, all in thorough); all schedules with <= 2 '
            'preemptions whose preemption sites lie in the source files of '
            'the tag itself (quick: 11 templates, small tag files; '
            'thorough: also DT_In / DT_InSV / TreeTag / DT_String) and, in '
            'thorough, all schedules with <= 2 preemptions anywhere for the '
            '12 templates with short renders; compile '
            'race (COOKLOCK replaced by a scheduler lock; blocked = '
            'disabled, nothing enabled = deadlock), plus 3 threads with <= '
            '1 preemption (steady).  In the compile family a state invariant '
            'is evaluated at every scheduling point of every execution: a '
            'template marked as compiled holds the completely compiled block '
            'list (what a further thread arriving at that moment would '
            'render), and a template that was completely compiled never '
            'loses that state again.  Every thread must obtain exactly its '
            'sequential result.  Per-thread inputs differ in value and, for '
            'the loop templates, in kind (strings / objects / pairs).',
    'more': 'Module- and class-level containers of the library are snapshot after pre-warming and put back before every execution, so that every execution starts from the same state (a race on a lazily extended table would otherwise show in the first execution of a process only). Also: a late page (rows 40..46) of a long listing; a source with CR CR LF line ends in the compile race. Templates without source text / without a tag in the compile race.',
    'note': 'Trusted: dtmc/sched.py (baton scheduler; replay of a schedule '
            'must reproduce the same point sequence or the run is a harness '
            'fault).  Reduction, checked in every execution: frames of '
            'per-render objects (TemplateDict, InstanceDict, ...) first '
            'touched by the running thread are not scheduling points.  Not '
            'covered: preemptions inside one source line, more than c '
            'preemptions, parallelism without a GIL.',
}
DYNAMIC = True        # few heavy cases: dynamic load balancing
RULE = ('templates x family {steady, compile} x threads {2, 3} x preemption '
        'bound c; schedules enumerated completely for the bound.  A '
        'schedule is non-trivial when it contains at least one context '
        'switch between two still-running threads.')
ASSUMPTIONS = ['scheduling points are line events; callees outside the '
               'package (re, RestrictedPython, html) run atomically inside '
               'the calling line',
               'the lazily imported command table is warmed before the '
               'threads start (module import is serialised by Python)']
CASE_CPU_SECONDS = 3600.0
SERIAL = False

LOCAL = ('TemplateDict', 'InstanceDict', 'DictInstance',
         'sequence_variables', 'SequenceFromIter', 'Add_with_prefix')


class E:
    def __init__(self, k, j):
        self.k, self.j = k, j


class Obj:
    pass


class TNode:
    def __init__(self, ident, kids=()):
        self.ident, self.kids = ident, list(kids)

    def tpId(self):
        return self.ident

    def tpURL(self):
        return self.ident

    def tpValues(self):
        return self.kids


class Response:
    def setCookie(self, *a, **kw):
        pass


class Boom(Exception):
    pass


TEMPLATES = {
    'var': 'a<dtml-var x>&dtml-y;<dtml-var y upper size=9>b',
    'expr': '<dtml-var "x + y"><dtml-var "_.len(x)">',
    'if': '<dtml-if c><dtml-var c>:<dtml-var x><dtml-elif "y">e<dtml-else>n'
          '</dtml-if>',
    'in': '<dtml-in seq prefix=p><dtml-var k><dtml-var p_index>,'
          '<dtml-else>empty</dtml-in>',
    'insort': '<dtml-in seq sort="k/desc,j" reverse><dtml-var k><dtml-var j>,'
              '</dtml-in>',
    'insortexpr': '<dtml-in seq sort_expr="sk" reverse_expr="rv">'
                  '<dtml-var k><dtml-var j>,</dtml-in>',
    'inbatch': '<dtml-in seq size=2 start=st orphan=0><dtml-var k>'
               '<dtml-if next-sequence>+<dtml-var '
               'next-sequence-start-number></dtml-if>,</dtml-in>',
    'inbatchsortexpr': '<dtml-in seq sort_expr="sk" size=3 start=1 '
                       'orphan=0><dtml-var k><dtml-var j>,</dtml-in>',
    # every thread iterates items of another kind (strings, objects,
    # (key, object) pairs): pushed for one thread, not pushed for the other
    'inkinds': '<dtml-in kinds><dtml-var sequence-index><dtml-var k '
               'missing="-">:<dtml-var y>,'
               '</dtml-in>|<dtml-in kinds size=2 orphan=0><dtml-var '
               'sequence-index><dtml-var x>,</dtml-in>',
    # a late page of a long listing: row numbers beyond 40 (what a lazily
    # extended table of numerals / letters would have to be extended for)
    'inroman': '<dtml-in long start=st40 size=6 orphan=0><dtml-var '
               'sequence-Roman>.<dtml-var sequence-roman>.<dtml-var '
               'sequence-number>,</dtml-in>',
    'tiny': 'a<dtml-var x>b',
    'empty': '',                # no source at all, and text without a tag
    'textonly': 'just text & <b>',
    # line ends of other conventions: the source text is what it is,
    # however often it is read and compiled
    'crlf': '<dtml-if c>\r\r\n<dtml-var x>\r\n<dtml-else>\r\r\nn\r</dtml-if>'
            '\r\r\n<dtml-var y>\n\r',
    'with': '<dtml-with o><dtml-var x></dtml-with><dtml-with "m" mapping>'
            '<dtml-var x></dtml-with>',
    'withonly': '<dtml-with o only><dtml-var x><dtml-var y missing="-">'
                '</dtml-with><dtml-var y>',
    'withmaponly': '<dtml-with m mapping only><dtml-var x><dtml-var y '
                   'missing="-"></dtml-with><dtml-with "_.namespace(q=x)" '
                   'only><dtml-var q></dtml-with>',
    'insortfn': '<dtml-in seq sort="k/by"><dtml-var k><dtml-var j>,'
                '</dtml-in>|<dtml-in seq sort_expr="sf"><dtml-var k>,'
                '</dtml-in>',
    'unless': '<dtml-unless c>u<dtml-var x></dtml-unless><dtml-comment>'
              '<dtml-var x></dtml-comment>&dtml.url_quote-y;',
    # literal values next to per-render values
    'let': '<dtml-let n="3" c="\'lit\'" z=x w="y + c"><dtml-var z>'
           '<dtml-var w><dtml-var n></dtml-let>',
    'try': '<dtml-try><dtml-var x><dtml-var boom><dtml-except Boom>E'
           '<dtml-var error_value><dtml-else>no</dtml-try>',
    'raise': '<dtml-try><dtml-raise type="KeyError">r<dtml-var x>'
             '</dtml-raise><dtml-except KeyError>R<dtml-var error_value>'
             '<dtml-finally></dtml-try>',
    'call': '<dtml-call "lst.append(x)"><dtml-var "lst[0]"><dtml-return y>',
    'sub': '<dtml-var sub><dtml-var x>',
    'tree': '<dtml-tree root>[<dtml-var tpId><dtml-var x>]</dtml-tree>',
    'treedocs': '<dtml-tree root header=hd footer=ft leaves=lf>'
                '[<dtml-var tpId>]</dtml-tree>',
}
# 'raise' has try + finally + except: not a valid combination -> fix below
TEMPLATES['raise'] = ('<dtml-try><dtml-raise type="KeyError">r<dtml-var x>'
                      '</dtml-raise><dtml-except KeyError>R'
                      '<dtml-var error_value></dtml-try>')
WRITERS = ('insortexpr', 'inbatchsortexpr', 'insort', 'inbatch', 'expr',
           'if', 'tree')


def namespace(name, i):
    """thread-specific namespace: every value differs per thread"""
    from DocumentTemplate import HTML
    tag = 'ABC'[i]

    def boom():
        raise Boom('boom-' + tag)
    o = Obj()
    o.x = 'ox' + tag
    seqs = [[E(2, 1), E(1, 2), E(3, 0), E(2, 0)],
            [E(5, 9), E(7, 8), E(6, 7)],
            [E(1, 1)]]
    def by(a, b, sign=(1, -1, 1)[i]):
        return sign * ((a > b) - (a < b))
    ns = {'by': by, 'sf': ('k/by', 'j/by', 'k')[i],
          'x': 'x' + tag, 'y': 'y<' + tag, 'c': 'c' + tag if i != 1 else '',
          'seq': seqs[i], 'sk': ('k', 'j', 'k')[i], 'rv': i == 1,
          'st': (1, 2, 1)[i], 'st40': (40, 41, 39)[i],
          'long': [E(n, i) for n in range(48)], 'o': o, 'm': {'x': 'mx' + tag}, 'boom': boom,
          'lst': [], 'sub': HTML('[<dtml-var x>]'),
          'kinds': (['s1', 's2', 's3'], [E(1, 2), E(3, 4), E(5, 6)],
                    [('p', E(7, 8)), ('q', 's')])[i],
          'hd': HTML('<tr><td>head-%s</td></tr>' % tag),
          'ft': HTML('<tr><td>foot-%s</td></tr>' % tag),
          'lf': HTML('leaf-%s' % tag),
          'root': TNode('r' + tag, [TNode('a' + tag, [TNode('a1')]),
                                    TNode('b' + tag)]),
          'URL': 'http://h/' + tag, 'RESPONSE': Response(),
          'expand_all': 1 if i == 0 else 0}
    if not ns['expand_all']:
        del ns['expand_all']
    return ns


def prewarm():
    import TreeDisplay  # noqa: F401
    from DocumentTemplate import HTML
    HTML('<dtml-in a></dtml-in><dtml-with a></dtml-with><dtml-if a>'
         '</dtml-if><dtml-unless a></dtml-unless><dtml-raise a>'
         '</dtml-raise><dtml-try><dtml-except></dtml-try><dtml-let a=b>'
         '</dtml-let><dtml-tree a></dtml-tree>').cook()


# -- library-level mutable state -----------------------------------------
# Stateless exploration assumes that every execution starts in the same
# state.  Module- and class-level containers of the library (lazily filled
# tables, memos) would carry what one execution built into the next one, so
# that a race on building them could show in the first execution of a
# process only.  They are snapshot after pre-warming and put back before
# every execution (and before the sequential baseline).

_globals_snapshot = []


def _library_containers():
    import sys
    pref = prefixes()
    seen = set()
    for mod in list(sys.modules.values()):
        f = getattr(mod, '__file__', None)
        if not f or not os.path.realpath(f).startswith(pref):
            continue
        if '/tests' in f:
            continue
        holders = [mod]
        holders += [v for v in vars(mod).values() if isinstance(v, type) and
                    getattr(v, '__module__', None) == mod.__name__]
        for h in holders:
            for name, v in list(vars(h).items()):
                if name.startswith('__'):
                    continue
                if type(v) in (list, dict, set) and id(v) not in seen:
                    seen.add(id(v))
                    yield v


def snapshot_library_state():
    if not _globals_snapshot:
        for v in _library_containers():
            _globals_snapshot.append((v, type(v)(v)))
    return len(_globals_snapshot)


def restore_library_state():
    for v, saved in _globals_snapshot:
        if v != saved or (type(v) is list and len(v) != len(saved)):
            if type(v) is list:
                v[:] = saved
            else:
                v.clear()
                v.update(saved)


_lock = []


def the_lock():
    """the scheduler lock installed in place of DT_String.COOKLOCK"""
    if not _lock:
        import DocumentTemplate.DT_String as DS
        lk = sched.SchedLock()
        DS.COOKLOCK = lk
        _lock.append(lk)
    return _lock[0]


def prefixes():
    import DocumentTemplate
    import TreeDisplay
    return (os.path.dirname(os.path.realpath(DocumentTemplate.__file__)),
            os.path.dirname(os.path.realpath(TreeDisplay.__file__)))


def call(t, ns):
    try:
        return ('ok', t(**ns))
    except CaseTimeout:
        raise
    except Exception as e:
        return ('exc', type(e).__name__, str(e)[:200])


def baseline(name, nthreads):
    from DocumentTemplate import HTML
    out = []
    for i in range(nthreads):
        restore_library_state()
        out.append(call(HTML(TEMPLATES[name]), namespace(name, i)))
    return out


# preemption sites for the site-restricted bound-2 exploration: both
# preemptions fall on lines of the tag's own (small) source files
SMALL_SITES = {
    'var': ['DT_Var.py', 'html_quote.py', 'ustr.py'],
    'expr': ['DT_Util.py', 'ustr.py'],
    'with': ['DT_With.py', 'DT_Util.py'],
    'withonly': ['DT_With.py', 'DT_Util.py'],
    'withmaponly': ['DT_With.py', 'DT_Util.py'],
    'let': ['DT_Let.py', 'DT_Util.py'],
    'try': ['DT_Try.py', 'ustr.py'],
    'raise': ['DT_Try.py', 'DT_Raise.py', 'ustr.py'],
    'call': ['DT_Util.py', 'DT_Return.py'],
    'inbatch': ['DT_InSV.py', 'DT_Util.py'],
    'inbatchsortexpr': ['DT_InSV.py', 'DT_Util.py'],
    'inroman': ['DT_InSV.py'],
    'in': ['DT_Util.py'],
}
BIG_SITES = {
    'in': ['DT_In.py', 'DT_InSV.py', 'DT_Util.py'],
    'insortexpr': ['DT_In.py', 'DT_InSV.py', 'DT_Util.py'],
    'inbatch': ['DT_In.py', 'DT_InSV.py', 'DT_Util.py'],
    'inbatchsortexpr': ['DT_In.py', 'DT_InSV.py', 'DT_Util.py'],
    'tree': ['TreeTag.py'],
    'treedocs': ['TreeTag.py'],
    'sub': ['DT_String.py'],
}
SMALL = ('var', 'expr', 'if', 'tiny', 'with', 'withonly', 'withmaponly',
         'unless', 'let',
         'try', 'raise', 'call', 'insort')


def cases(tier):
    names = list(TEMPLATES)
    shards = 8
    for name, sites in SMALL_SITES.items():
        for k in range(4):
            yield {'tmpl': name, 'fam': 'steady', 'threads': 2, 'bound': 2,
                   'shard': [k, 4], 'sites': sites}
    quick_compile = ('var', 'if', 'insortexpr', 'with', 'try', 'crlf',
                     'empty', 'textonly')
    for name in names:
        for fam in ('steady', 'compile'):
            if fam == 'compile' and tier == 'quick' and \
                    name not in quick_compile:
                continue
            n = shards * (3 if fam == 'compile' else 1)
            for k in range(n):
                yield {'tmpl': name, 'fam': fam, 'threads': 2, 'bound': 1,
                       'shard': [k, n]}
    if tier == 'thorough':
        shards = 48
        for name in SMALL:
            for k in range(shards):
                yield {'tmpl': name, 'fam': 'steady', 'threads': 2,
                       'bound': 2, 'shard': [k, shards]}
        for name, sites in BIG_SITES.items():
            for k in range(shards):
                yield {'tmpl': name, 'fam': 'steady', 'threads': 2,
                       'bound': 2, 'shard': [k, shards], 'sites': sites}
        for name in ('tiny', 'var', 'expr', 'call'):
            for k in range(shards):
                yield {'tmpl': name, 'fam': 'compile', 'threads': 2,
                       'bound': 2, 'shard': [k, shards],
                       'sites': ['DT_String.py']}
        for name in ('insortexpr', 'if', 'with', 'try'):
            for k in range(16):
                yield {'tmpl': name, 'fam': 'steady', 'threads': 3,
                       'bound': 1, 'shard': [k, 16]}


def make_bodies_factory(name, fam, nthreads):
    from DocumentTemplate import HTML

    ref = HTML(TEMPLATES[name])
    ref.cook()
    ref_digest = digest(fingerprint(ref._v_blocks))

    def make():
        restore_library_state()
        t = HTML(TEMPLATES[name])
        if fam == 'steady':
            t.cook()
        nss = [namespace(name, i) for i in range(nthreads)]
        seen = {}

        def observer(i, loc):
            # state invariant: a template that is marked as compiled holds
            # the completely compiled block list -- what any other thread
            # entering __call__ at this moment would render
            d = t.__dict__
            if '_v_cooked' not in d or '_v_blocks' not in d:
                # once completely compiled, a shared template stays so:
                # another thread may be about to render its block list
                if seen.get('was-complete'):
                    return ('compiled template lost %s again' % (
                        '_v_cooked' if '_v_cooked' not in d
                        else '_v_blocks'))
                if '_v_cooked' not in d:
                    return None
            blocks = d.get('_v_blocks')
            key = (id(blocks), len(blocks) if blocks is not None else -1)
            if key not in seen:
                was = seen.get('was-complete')
                seen.clear()
                if was:
                    seen['was-complete'] = True
                try:
                    seen[key] = blocks is not None and \
                        digest(fingerprint(blocks)) == ref_digest
                except Exception:
                    seen[key] = False
            if not seen[key]:
                return 'marked compiled but %d of %d blocks present' % (
                    key[1], len(ref._v_blocks))
            seen['was-complete'] = True
            return None
        make.observer = observer
        return [lambda i=i: t(**nss[i]) for i in range(nthreads)]
    return make


def first_switch(exe):
    for cur, en, c, loc, cur_enabled in exe.trace:
        if c != 0 and cur_enabled:
            return '%s.%s' % (loc[0].replace('.py', ''), loc[2]
                              if len(loc) > 2 else loc[1])
    return 'no-preemption'


def run_schedule(name, fam, nthreads, choices, lock):
    make = make_bodies_factory(name, fam, nthreads)
    exe = sched.Execution(make(), choices, prefixes(), LOCAL)
    exe.on_point = make.observer
    lock.bind(exe)
    try:
        exe.run()
    finally:
        lock.bind(None)
    return exe


def judge(res, case, exe, base, choices):
    name = case['tmpl']
    sub = dict(case, choices={str(k): v for k, v in choices.items()})
    sub.pop('shard', None)
    if exe.error is not None:
        res.violate('harness', 'harness:%s' % type(exe.error).__name__,
                    {'error': repr(exe.error)}, sub)
        return
    if exe.invariant_violation is not None:
        i, loc, bad = exe.invariant_violation
        res.violate('no-partially-compiled-template',
                    'partial-compile:%s:%s' % (name, '%s.%s' % (
                        loc[0].replace('.py', ''), loc[2] if len(loc) > 2
                        else loc[1])),
                    {'thread': i, 'at': list(loc), 'what': bad,
                     'switches': exe.switches()[:6],
                     'template': TEMPLATES[name]}, sub)
        return
    if exe.deadlock:
        res.violate('no-deadlock', 'deadlock:%s:%s' % (name, case['fam']),
                    {'blocked': [b is not None for b in exe.blocked],
                     'switches': exe.switches()}, sub)
        return
    for i, (got, want) in enumerate(zip(exe.results, base)):
        if got != want:
            res.violate('sequential-result', 'race:%s:%s:%s' % (
                name, case['fam'], first_switch(exe)),
                {'thread': i, 'got': got, 'alone': want,
                 'switches': exe.switches()[:6],
                 'template': TEMPLATES[name]}, sub)
            return


def run(case):
    res = Res()
    prewarm()
    lock = the_lock()
    res.count('library-containers-reset-per-execution',
              0 if _globals_snapshot else snapshot_library_state())
    name, fam, nthreads = case['tmpl'], case['fam'], case['threads']
    base = baseline(name, nthreads)
    if 'choices' in case:
        choices = {int(k): v for k, v in case['choices'].items()}
        a = run_schedule(name, fam, nthreads, choices, lock)
        b = run_schedule(name, fam, nthreads, choices, lock)
        if [p[:4] for p in a.trace] != [p[:4] for p in b.trace]:
            raise HarnessFault('replay of one schedule is not deterministic')
        judge(res, case, a, base, choices)
        res.nontrivial = True
        return res
    outcomes = set()
    switch_sites = set()
    points = [0]
    nontrivial = [0]

    def check(exe, choices):
        judge(res, case, exe, base, choices)
        outcomes.add(repr(exe.results))
        points[0] += len(exe.trace)
        pre = False
        for cur, en, c, loc, cur_enabled in exe.trace:
            if c != 0 and cur_enabled:
                switch_sites.add(loc[:3])
                pre = True
        if pre:
            nontrivial[0] += 1
        if exe.shared_local:
            res.count('reduction-lifted:' + ','.join(sorted(
                exe.shared_local)))

    def patched_explore():
        make = make_bodies_factory(name, fam, nthreads)
        orig = sched.Execution

        class Bound(orig):
            def run(self, timeout=60.0):
                self.on_point = make.observer
                lock.bind(self)
                try:
                    return orig.run(self, timeout)
                finally:
                    lock.bind(None)
        sched.Execution = Bound
        try:
            return sched.explore(make, case['bound'], prefixes(), LOCAL,
                                 check, shard=tuple(case['shard']),
                                 preempt_files=case.get('sites'))
        finally:
            sched.Execution = orig
    stats = patched_explore()
    res.evals = stats['schedules']
    res.nt_count = nontrivial[0]
    res.states = len(switch_sites) + 1
    res.transitions = points[0]
    res.traces = stats['schedules']
    res.count('schedules:%s:c%d%s:t%d' % (
        fam, case['bound'], '-sites' if case.get('sites') else '', nthreads),
        stats['schedules'])
    res.count('distinct-outcomes:%s:%s' % (name, fam), len(outcomes))
    if case['shard'][0] == 0:
        res.count('steps-per-thread:%s:%s' % (name, fam),
                  stats['steps_per_thread'][0])
    res.sample = {'template': TEMPLATES[name], 'family': fam,
                  'threads': nthreads, 'bound': case['bound'],
                  'schedules_in_this_shard': stats['schedules'],
                  'points_per_execution': stats['points_max']}
    res.outcome = '%s:c%d%s:t%d' % (fam, case['bound'], '-sites'
                                    if case.get('sites') else '', nthreads)
    return res


def finalize(tier, agg):
    if agg['traces'] < 1000:
        raise HarnessFault('vacuous: too few schedules')
    if agg['nontrivial'] < 500:
        raise HarnessFault('vacuous: too few schedules with a preemption')
    c = agg['counters']
    return {'schedules': {k: v for k, v in c.items()
                          if k.startswith('schedules:')},
            'steps_per_thread': {k[17:]: v for k, v in c.items()
                                 if k.startswith('steps-per-thread:')},
            'reduction_lifted': {k: v for k, v in c.items()
                                 if k.startswith('reduction-lifted')},
            'bounds_completed': '2 threads c=1: steady for all templates, '
                                'compile for %s' % (
                                    'all' if tier == 'thorough' else
                                    'var, if, insortexpr, with, try') + (
                                    '; c=2 unrestricted for %s (steady); '
                                    'c=2 with sites in the tag files for '
                                    '%s (steady) and in DT_String.py for '
                                    'tiny, var, expr, call (compile); 3 '
                                    'threads c=1 for 4 templates (steady)'
                                    % (', '.join(SMALL),
                                       ', '.join(BIG_SITES))
                                    if tier == 'thorough' else
                                    '; c=2 with both preemption sites in '
                                    'the tag files for %s (steady)'
                                    % ', '.join(SMALL_SITES))}
