"""C12 - batching a lazy sequence pulls only the window plus one look-ahead
batch.

The supplier is the environment: an instrumented iterator / generator / lazy
__getitem__ sequence, bounded or unbounded, that logs every pull.  The batch
parameter grid of C11 is enumerated against it, with four body forms.
"""

import re

from ..core import CaseTimeout
from ..core import HarnessFault
from ..core import Res

ID = 'C12'
LEVEL = 'exploration'
MANIFEST = {
    'technique': 'exhaustive enumeration of the batch parameter grid against '
                 'instrumented lazy suppliers (bounded and unbounded); pull '
                 'log compared with the look-ahead bound',
    'text': 'Every (start, end, size, orphan, overlap) of the grid x supplier '
            '{iterator, generator, lazy __getitem__ sequence} x length '
            '{0..12 subset, unbounded} x body {item, item + all batch '
            'variables, next form, previous form, previous-batches, all '
            'positional and grouping variables, a nested loop over the same name} is rendered on the real '
            'code; the supplier logs its pulls: never more than min(length, '
            'window end + step size + orphan), each element once and in '
            'order, __len__ never called on an unbounded supplier, the '
            'render of an unbounded supplier returns; unbatched renders pull '
            'every element exactly once.',
    'more': 'Also: one of the five parameters (rotating over the grid) given as a text int() understands instead of an integer. The look-ahead parameters the tag reports (step size, orphan) must be the ones it was asked for (or the size inferred from start..end).',
    'note': 'Trusted: the pull log of the instrumented supplier; the window '
            'end / step size / orphan used in the bound are the ones the tag '
            'itself reports (sequence-step-end / -size / -orphan).  An '
            'unbounded supplier aborts the render after 200 pulls.',
}
RULE = ('start, end in -1..10 (quick) / -1..16 (thorough), size -1..5 / '
        '-1..7, orphan 0..3 / 0..4, overlap 0..3 x 3 suppliers x lengths '
        '{0,1,2,3,5,8,12,unbounded} (thorough: 0..12, unbounded) x 8 bodies; '
        'plus unbatched renders of bounded suppliers.  A run is non-trivial '
        'when the supplier holds more elements than the bound allows to '
        'pull (so a len()/list() would be visible).')
ASSUMPTIONS = ['the pull bound is asserted for overlap < step size (as in '
               'C11); with a larger overlap the announced previous batch '
               'ends behind the window and only termination is required',
               'sort, reverse, sequence-length, next-batches and statistics '
               'are excepted by the statement and are not used in the '
               'bodies']
CASE_CPU_SECONDS = 200.0
CASE_CPU_SECONDS_QUICK = 15.0
BUDGET = 200
INF = -1


class PullBudget(BaseException):
    pass


class Log:
    def __init__(self):
        self.pulls = 0
        self.maxindex = -1
        self.len_calls = 0
        self.repeat = False


FALSY_ELEMS = [None, 0, '', (), None]


def elem(i, falsy):
    """element number i (1-based); the falsy suppliers produce None, 0, ''
    and () - values that must not be mistaken for the end of the sequence"""
    return FALSY_ELEMS[i % 5] if falsy else i


def make_iter(n, log, falsy=False):
    def gen():
        i = 0
        while n == INF or i < n:
            log.pulls += 1
            if log.pulls > BUDGET:
                raise PullBudget()
            i += 1
            yield elem(i, falsy)
    return gen()


class CountingIter:
    def __init__(self, n, log, falsy=False):
        self.n, self.log, self.i, self.falsy = n, log, 0, falsy

    def __iter__(self):
        return self

    def __next__(self):
        if self.n != INF and self.i >= self.n:
            raise StopIteration
        self.log.pulls += 1
        if self.log.pulls > BUDGET:
            raise PullBudget()
        self.i += 1
        return elem(self.i, self.falsy)


class LazySeq:
    def __init__(self, n, log, falsy=False):
        self.n, self.log, self.falsy = n, log, falsy

    def __getitem__(self, i):
        if i < 0:
            raise IndexError(i)
        if self.n != INF and i >= self.n:
            raise IndexError(i)
        if i > BUDGET:
            raise PullBudget()
        if i > self.log.maxindex:
            self.log.maxindex = i
        return elem(i + 1, self.falsy)

    def __len__(self):
        self.log.len_calls += 1
        if self.n == INF:
            raise PullBudget()
        return self.n


def supplier(kind, n, log):
    falsy = kind.endswith('0')
    kind = kind.rstrip('0')
    if kind == 'gen':
        return make_iter(n, log, falsy)
    if kind == 'iter':
        return CountingIter(n, log, falsy)
    return LazySeq(n, log, falsy)


STEP = ('{<dtml-var sequence-step-start>,<dtml-var sequence-step-end>,'
        '<dtml-var sequence-step-size>,<dtml-var sequence-step-orphan>}')
BODIES = {
    'item': '<dtml-var sequence-item>,' + STEP,
    'full': ('<dtml-var sequence-item>:<dtml-var sequence-number>:'
             '<dtml-var sequence-start>:<dtml-var sequence-end>:'
             '<dtml-var previous-sequence>:<dtml-var next-sequence>:'
             '<dtml-if previous-sequence>'
             '<dtml-var previous-sequence-start-number>-'
             '<dtml-var previous-sequence-end-number>-'
             '<dtml-var previous-sequence-size></dtml-if>:'
             '<dtml-if next-sequence>'
             '<dtml-var next-sequence-start-number>-'
             '<dtml-var next-sequence-end-number>-'
             '<dtml-var next-sequence-size></dtml-if>,' + STEP),
    'next': ('NEXT<dtml-var next-sequence-start-number>-'
             '<dtml-var next-sequence-end-number>' + STEP),
    'prevb': ('<dtml-var sequence-item><dtml-in previous-batches mapping>'
              '(<dtml-var batch-start-index>-<dtml-var batch-end-index>-'
              '<dtml-var batch-size>)</dtml-in>,' + STEP),
    # the body uses the same name again: a nested loop over the first
    # element (the "head of the list" / previous-next link idiom)
    'item-rev0': '<dtml-var sequence-item>,' + STEP,
    'nested': ('<dtml-var sequence-item><dtml-if sequence-end><dtml-in seq '
               'size=1 start=1>(<dtml-var sequence-item>)</dtml-in>'
               '</dtml-if>,' + STEP),
    'vars': ('<dtml-var sequence-item>:<dtml-var sequence-index>:'
             '<dtml-var sequence-letter>:<dtml-var sequence-Letter>:'
             '<dtml-var sequence-roman>:<dtml-var sequence-Roman>:'
             '<dtml-var sequence-even>:<dtml-var sequence-odd>:'
             '<dtml-var sequence-key>:<dtml-var sequence-var-real>:'
             '<dtml-var first-real>:<dtml-var last-real>,' + STEP),
    'previous': ('PREV<dtml-var previous-sequence-start-number>-'
                 '<dtml-var previous-sequence-end-number>' + STEP),
}
STEP_RE = re.compile(r'\{(-?\d+),(-?\d+),(-?\d+),(-?\d+)\}')

GRIDS = {
    'quick': dict(L=[0, 1, 2, 3, 5, 8, 12, INF], se=range(-1, 11),
                  size=range(-1, 6), orphan=range(0, 4)),
    'thorough': dict(L=list(range(0, 13)) + [INF], se=range(-1, 17),
                     size=range(-1, 8), orphan=range(0, 5)),
}

_t = {}


def template(body):
    t = _t.get(body)
    if t is None:
        from DocumentTemplate import HTML
        flag = {'next': ' next', 'previous': ' previous',
                # options that are present but switched off at render time
                'item-rev0': ' reverse_expr="prv0"'}.get(body, '')
        if body == 'unbatched':
            src = '<dtml-in seq><dtml-var sequence-item>,</dtml-in>'
        else:
            src = ('<dtml-in seq start=pstart end=pend size=psize '
                   'orphan=porphan overlap=poverlap%s>%s'
                   '<dtml-else>ELSE</dtml-in>' % (flag, BODIES[body]))
        t = _t[body] = HTML(src)
    return t


def cases(tier):
    g = GRIDS[tier]
    for L in g['L']:
        for sup in ('iter0', 'gen0', 'lazy0'):
            # suppliers of None / 0 / '' / () elements
            if L != INF:
                yield {'body': 'unbatched', 'L': L, 'sup': sup}
            for size in g['size']:
                yield {'body': 'item', 'L': L, 'sup': sup, 'size': size,
                       'orphan': 0, 'se': [g['se'][0], g['se'][-1]]}
        for sup in ('iter', 'gen', 'lazy'):
            if L != INF:
                yield {'body': 'unbatched', 'L': L, 'sup': sup}
            for body in ('item', 'full', 'next', 'previous', 'prevb', 'vars',
                         'nested', 'item-rev0'):
                if body in ('prevb', 'vars', 'nested', 'item-rev0') and \
                        sup == 'gen':
                    continue        # a generator behaves as the iterator
                for size in g['size']:
                    for orphan in g['orphan']:
                        yield {'body': body, 'L': L, 'sup': sup,
                               'size': size, 'orphan': orphan,
                               'se': [g['se'][0], g['se'][-1]]}


def one(res, case, start, end, overlap):
    L, sup, body = case['L'], case['sup'], case['body']
    size, orphan = case['size'], case['orphan']
    if body == 'prevb' and overlap and overlap >= size:
        # previous-batches makes no progress when overlap >= step size (the
        # degenerate domain C11 excludes); not rendered at all
        return False
    log = Log()
    seq = supplier(sup, L, log)
    sub = dict(case, start=start, end=end, overlap=overlap)
    sub.pop('se', None)
    tag = '%s:%s:%s' % (sup, body, 'unbounded' if L == INF else 'bounded')
    try:
        # the numbers reach the tag as integers or as one of the texts
        # int() understands (padded, signed, other decimal digits)
        from .c11 import SPELLINGS
        c = SPELLINGS[(start + 2 * end + 3 * size + 5 * orphan +
                       (0 if L == INF else L)) % len(SPELLINGS)]
        vals = [start, end, size, orphan, overlap]
        # one of the five parameters (which one rotates over the grid) is
        # given in that spelling, the others as integers
        j = (start + end + size + orphan + overlap) % 5
        vals[j] = c(vals[j])
        out = template(body)(seq=seq, pstart=vals[0], pend=vals[1],
                             psize=vals[2], porphan=vals[3],
                             poverlap=vals[4], prv0=0)
    except PullBudget:
        res.violate('bounded-pulls', 'unbounded-consumer:%s%s' % (
            tag, ':len' if log.len_calls else ''),
            {'pulls': log.pulls, 'len_calls': log.len_calls}, sub)
        return True
    except CaseTimeout:
        raise
    except Exception as e:
        # C11 owns window errors; here only the pulls matter
        res.count('exceptions:%s' % type(e).__name__)
        return False
    pulled = log.pulls if not sup.startswith('lazy') else log.maxindex + 1
    if sup.startswith('lazy') and log.len_calls:
        pulled = L          # asking for the length costs everything
    m = STEP_RE.search(out)
    if m is None:
        res.count('bound-unknown')
        return L == INF
    s, e, sz, orph = map(int, m.groups())
    if (size >= 1 and sz != size) or orph != orphan or (
            size < 1 and 0 < start <= end and sz != end + 1 - start):
        # the look-ahead the tag reports is not the one it was asked for
        # (e.g. a value remembered from an earlier rendering)
        res.violate('bounded-pulls', 'step-differs:%s' % tag,
                    {'asked': {'size': size, 'orphan': orphan},
                     'reported': {'size': sz, 'orphan': orph}}, sub)
        return True
    bound = e + sz + orph
    if body == 'nested':
        bound = max(bound, 2)   # the inner loop: element 1 + one look-ahead
    if L != INF:
        bound = min(bound, L)
    if overlap >= sz:
        # degenerate: the previous batch would end behind the window (C11
        # speaks about overlap < size only); termination still checked
        res.count('overlap>=size')
        return False
    if pulled > bound:
        res.violate('bounded-pulls', 'over-pull:%s%s' % (
            tag, ':len' if log.len_calls else ''),
            {'pulled': pulled, 'bound': bound, 'window_end': e,
             'step_size': sz, 'orphan': orph, 'len_calls': log.len_calls,
             'output': out[:200]}, sub)
    return L == INF or L > bound


def run(case):
    res = Res()
    if case['body'] == 'unbatched':
        log = Log()
        L = case['L']
        seq = supplier(case['sup'], L, log)
        out = template('unbatched')(seq=seq)
        falsy = case['sup'].endswith('0')
        exp = ''.join('%s,' % (elem(i, falsy),) for i in range(1, L + 1))
        pulled = log.pulls if not case['sup'].startswith('lazy') \
            else log.maxindex + 1
        if out != exp or pulled != L:
            res.violate('unbatched', 'unbatched:%s' % case['sup'],
                        {'output': out, 'pulled': pulled, 'L': L})
        res.nontrivial = L > 0
        res.outcome = 'unbatched'
        return res
    if 'start' in case:
        one(res, case, case['start'], case['end'], case['overlap'])
        res.nontrivial = True
        return res
    lo, hi = case['se']
    ev = nt = 0
    for start in range(lo, hi + 1):
        for end in range(lo, hi + 1):
            for overlap in range(0, 4):
                if one(res, case, start, end, overlap):
                    nt += 1
                    if res.sample is None:
                        res.sample = dict(case, start=start, end=end,
                                          overlap=overlap)
                ev += 1
    res.evals = ev
    res.nt_count = nt
    res.outcome = '%s:%s:%s' % (case['sup'], case['body'],
                                'unbounded' if case['L'] == INF
                                else 'bounded')
    return res


def finalize(tier, agg):
    if agg['nontrivial'] < 5000:
        raise HarnessFault('vacuous: too few runs with spare elements')
    unk = agg['counters'].get('bound-unknown', 0)
    if unk > agg['evaluations'] * 0.6:
        raise HarnessFault('too many runs without a reported window')
    # self-test: a supplier pulled beyond the budget must abort
    log = Log()
    it = make_iter(INF, log)
    try:
        for _ in range(BUDGET + 5):
            next(it)
    except PullBudget:
        pass
    else:
        raise HarnessFault('self-test: pull budget not enforced')
    return {'bound_unknown_runs': unk}
