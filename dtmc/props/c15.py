"""C15 - dtml-var options apply a fixed, documented value pipeline.

Five exhaustive families (each case is one family x one value or option set):
  perm    every written order of every modifier subset (size <= 3 / 4) gives
          the same text
  law     single-option laws (string methods, thousands_commas, url round
          trips through two templates, sql_quote)
  trunc   size 0..len+2 x etc in {default, '', '>>'} on every text value
  stage   missing -> null -> fmt -> C-format -> modifier -> size/etc: the
          combined tag equals the composition of the single-stage tags
  null    null= / missing= replace exactly the null / undefined values and
          nothing else, and the replacement is final
"""

import itertools
import re

from ..core import HarnessFault
from ..core import Res

ID = 'C15'
LEVEL = 'exploration'
MANIFEST = {
    'technique': 'exhaustive enumeration of option subsets in every written '
                 'order, of sizes/etc and of stage combinations over a fixed '
                 'value set; relational oracles (order invariance, stage '
                 'composition) plus closed-form laws',
    'text': 'On the real renderer: (perm) all subsets of <= 4 (quick) / <= 5 '
            '(thorough) of the 12 modifiers in every written order, with '
            'size at either end, must render identically; (law) every single '
            'modifier on every value against its closed form, url_quote -> '
            'url_unquote (and _plus) round trip through two templates, '
            'sql_quote; (trunc) size 0..len+2 x three etc strings on every '
            'text value against the truncation law; (stage) every '
            'combination fmt x C-format x modifier x size equals the '
            'composition of the single-stage renderings; (null) null=/'
            'missing= replace exactly null/undefined values and are final; '
            '(commas) thousands_commas on 23 digit-bearing texts (leading '
            'zeros, non-ASCII digits, signs, several points) only inserts '
            'separators, groups of three from the right, and equal numbers '
            'of different types (1000, 1000.0, Decimal, True/1/1.0) '
            'rendered one after the other each print their own text; (fmt) '
            'the fmt= stage alone against what it is: 16 %-formats applied '
            'to the value (same text or same exception class as Python), '
            '13 method formats (the method of the value is called), the '
            'dollar / length formats against their closed forms, the '
            'deprecated named formats equal to the like-named modifier on '
            'strings; each also with null= at either end.',
    'more': 'Also: etc= / null= / missing= texts with white space at their edges; truncation texts with tabs, line ends, no-break and ideographic spaces.',
    'note': 'Trusted: the closed forms in this driver (Python str methods, '
            'format(n, ","), urllib round trip as identity, the truncation '
            'rule as stated).  The inner order of several modifiers is not '
            'fixed by the statement and is not asserted; only its '
            'independence from the written order is.',
}
RULE = ('families perm/law/trunc/stage/null as described in the module '
        'docstring, over 15 text values, their utf-8 bytes, 4 ints, 2 '
        'floats, None, "", [], {} and an object with a method.  A run is '
        'non-trivial when the option(s) change the text of the value (or '
        'for perm: when at least two orders were compared).')
ASSUMPTIONS = ['structured-text / restructured-text formats are not '
               'exercised (they generate markup by external libraries)',
               'the url option (absolute_url) is not part of the statement '
               'and is not exercised']
CASE_CPU_SECONDS = 120.0
CASE_CPU_SECONDS_QUICK = 10.0

MODS = ['html_quote', 'url_quote', 'url_quote_plus', 'url_unquote',
        'url_unquote_plus', 'newline_to_br', 'lower', 'upper', 'capitalize',
        'spacify', 'thousands_commas', 'sql_quote']

TEXTS = ['abc def ghi', 'abcdefgh ij', 'ab cdefghij', 'abcdefghij',
         'abcd efgh', "it's", 'a_b_c', '1234567', '1234567.891',
         '%41%2541+x y', 'a\x00b\x1ac\rd\ne', 'MiXed caSe', '', '\xe9 €<&',
         'AT&T rocks on', 'x&amp;y &#39;z&lt',
         # white space other than the blank is not a place to cut at
         'ab cdef\tgh\nij', 'abcdefg\thi jk', 'abcd\xa0ef\u3000gh',
         'a b\x0bcd\x0cefg\rhi']
PERM_VALUES = ["a_b %41%2541+'x\ny 1234567.5 Cd<", '%2541%253C 9999',
               'plain', '']


class WithMethod:
    def m(self):
        return 'M_e th'

    def __str__(self):
        return 'obj_Str 1234'


def other_values():
    return [('int0', 0), ('int7', 7), ('int1234567', 1234567),
            ('int-1234567', -1234567), ('float0', 0.0), ('float', 1234.5),
            ('none', None), ('emptylist', []), ('emptydict', {}),
            ('obj', WithMethod()), ('tuple1', (7,)), ('tuple0', ()),
            ('tuple2', (1, 'a_b')), ('list1', [7])]


def all_values():
    out = [('str:%d' % i, s) for i, s in enumerate(TEXTS)]
    out += [('bytes:%d' % i, s.encode('utf-8')) for i, s in enumerate(TEXTS)]
    out += other_values()
    return out


VALUE_IDS = [k for k, _ in all_values()]


def value_by_id(vid):
    return dict(all_values())[vid]


_t = {}


def tmpl(src, epfs=False):
    t = _t.get((src, epfs))
    if t is None:
        from DocumentTemplate import HTML
        from DocumentTemplate import String
        if len(_t) > 20000:
            _t.clear()
        t = _t[(src, epfs)] = (String if epfs else HTML)(src)
    return t


def rend(src, epfs=False, **kw):
    """-> ('ok', value) | ('exc', classname)"""
    try:
        return ('ok', tmpl(src, epfs)(**kw))
    except Exception as e:
        return ('exc', type(e).__name__)


def same_out(got, exp):
    """outcome equality; an empty result is '' whatever the value type"""
    if got == exp:
        return True
    return got[0] == exp[0] == 'ok' and isinstance(got[1], (str, bytes)) \
        and isinstance(exp[1], (str, bytes)) and not got[1] and not exp[1]


def tag(opts, epfs=False, cfmt='s', name='x'):
    body = ' '.join([name] + list(opts))
    if epfs:
        return '%%(%s)%s' % (body, cfmt)
    return '<dtml-var %s>' % body


# ---------------------------------------------------------------- cases

def cases(tier):
    maxk = 4 if tier == 'quick' else 5
    for k in range(1, maxk + 1):
        for sub in itertools.combinations(range(len(MODS)), k):
            yield {'fam': 'perm', 'mods': list(sub)}
    for vid in VALUE_IDS:
        yield {'fam': 'law', 'value': vid}
        yield {'fam': 'null', 'value': vid}
        yield {'fam': 'stage', 'value': vid}
    yield {'fam': 'commas'}
    yield {'fam': 'defraise'}
    yield {'fam': 'cfmt'}
    yield {'fam': 'fmt'}
    for i in range(len(TEXTS)):
        yield {'fam': 'trunc', 'value': 'str:%d' % i}
        yield {'fam': 'trunc', 'value': 'bytes:%d' % i}
        yield {'fam': 'round', 'value': 'str:%d' % i}


# ---------------------------------------------------------------- perm

def run_perm(res, case):
    names = [MODS[i] for i in case['mods']]
    n = 0
    for vi, v in enumerate(PERM_VALUES):
        for extra in ([], ['size=7'], ['size=7', 'etc="~"'], ['null="N"']):
            outs = {}
            for order in itertools.permutations(names):
                variants = [list(order) + extra]
                if extra:
                    variants.append(extra + list(order))
                for opts in variants:
                    o = rend(tag(opts), x=v)
                    n += 1
                    outs.setdefault(repr(o), opts)
            if len(outs) > 1:
                (a, oa), (b, ob) = list(outs.items())[:2]
                res.violate('written-order',
                            'perm:%s' % '+'.join(sorted(names)),
                            {'value': v, 'order_a': oa, 'result_a': a,
                             'order_b': ob, 'result_b': b})
    res.evals = n
    res.nt_count = n if len(names) > 1 else 0
    res.sample = {'modifiers': names, 'values': PERM_VALUES}


# ---------------------------------------------------------------- laws

NUMERIC = re.compile(r'^-?[0-9]+(\.[0-9]+)?\Z')


def commas(text):
    """the digits of the integer part in groups of three from the right;
    no digit is added, dropped or changed (leading zeros stay)"""
    m = re.match(r'^(-?)([0-9]+)((\.[0-9]+)?)\Z', text)
    d = m.group(2)
    groups = []
    while d:
        groups.insert(0, d[-3:])
        d = d[:-3]
    return m.group(1) + ','.join(groups) + m.group(3)


# further values for the thousands_commas law only
COMMA_TEXTS = ['0012345', '007', '0000', '1000', '999', '-1234', '100000',
               '12345678901234567890', '0.5', '1000.0001', '-0012.50',
               '$1234', 'abc 1234567 def', 'x1234', '1234.5678.9012',
               '\u0661\u0662\u0663\u0664\u0665', '\uff11\uff12\uff13\uff14',
               '1234\n', ' 1234', '1234 ', '+1234', '1e20', '12_345',
               '1234567.', '.', '12.', 'Total: 1234567.', '.5', '1234..5',
               '1234.5.', '-.5', '1234.0']


def run_commas(res, case):
    n = nt = 0
    for text in COMMA_TEXTS:
        for v in (text, text.encode('utf-8')):
            for src in ('<dtml-var x thousands_commas>',
                        '<dtml-var x fmt=comma-numeric>',
                        '&dtml.thousands_commas-x;'):
                got = rend(src, x=v)
                n += 1
                out = got[1] if got[0] == 'ok' else None
                if isinstance(out, bytes):
                    out = out.decode('utf-8')
                kind = 'bytes' if isinstance(v, bytes) else 'str'
                if not isinstance(out, str):
                    res.violate('law', 'law:thousands_commas:exc:' + kind,
                                {'value': repr(v), 'source': src,
                                 'got': repr(got)})
                    continue
                if NUMERIC.match(text):
                    nt += 1
                    if out != commas(text):
                        res.violate('law', 'law:thousands_commas:' + kind,
                                    {'value': repr(v), 'source': src,
                                     'got': out, 'expected': commas(text)})
                elif out.replace(',', '') != text.replace(',', ''):
                    # whatever is grouped, only separators may be inserted
                    res.violate('law', 'law:thousands_commas-only-commas:'
                                + kind, {'value': repr(v), 'source': src,
                                         'got': out})
    # values that compare equal but print differently, one after the other
    import decimal
    eq = [1000, 1000.0, decimal.Decimal('1000.00'), 1, True, 1.0, 0, 0.0,
          False, 1500, 1500.0, -1500, -1500.0]
    for order in (eq, eq[::-1]):
        for src in ('<dtml-var x fmt=comma-numeric>',
                    '<dtml-var x thousands_commas>'):
            for v in order:
                got = rend(src, x=v)
                n += 1
                nt += 1
                text = str(v)
                want = commas(text) if NUMERIC.match(text) else text
                if got != ('ok', want):
                    res.violate('law', 'law:thousands_commas:equal-values',
                                {'value': repr(v), 'source': src,
                                 'got': repr(got), 'expected': want,
                                 'rendered-before': [repr(x) for x in
                                                     order[:order.index(v)]]})
    res.evals = n
    res.nt_count = nt
    res.sample = {'values': COMMA_TEXTS[:4], 'option': 'thousands_commas'}


def sql_ref(s):
    for c in '\x00\x1a\r':
        s = s.replace(c, '')
    return s.replace("'", "''")


def as_text(v):
    """the string form the pipeline works on"""
    if isinstance(v, (str, bytes)):
        return v
    return str(v)


def run_law(res, case):
    vid = case['value']
    v = value_by_id(vid)
    kind = vid.split(':')[0].rstrip('0123456789-')
    base = as_text(v)
    n = nt = 0

    def check(mod, expected, law):
        nonlocal n, nt
        got = rend(tag([mod]), x=v)
        n += 1
        if expected != base:
            nt += 1
        if not same_out(got, ('ok', expected)):
            res.violate('law', 'law:%s:%s' % (law, kind),
                        {'value': repr(v), 'option': mod, 'got': repr(got),
                         'expected': repr(expected)})

    if isinstance(base, bytes):
        check('lower', base.lower(), 'lower')
        check('upper', base.upper(), 'upper')
        check('capitalize', base.capitalize(), 'capitalize')
        check('spacify', base.replace(b'_', b' '), 'spacify')
        got = rend(tag(['sql_quote']), x=v)
        n += 1
        exp = sql_ref(base.decode('utf-8'))
        if got not in (('ok', exp), ('ok', exp.encode('utf-8'))):
            res.violate('law', 'law:sql_quote:bytes',
                        {'value': repr(v), 'got': repr(got),
                         'expected': exp})
        if NUMERIC.match(base.decode('utf-8')):
            exp = commas(base.decode('utf-8'))
            got = rend(tag(['thousands_commas']), x=v)
            n += 1
            if got not in (('ok', exp), ('ok', exp.encode('utf-8'))):
                res.violate('law', 'law:thousands_commas:bytes',
                            {'value': repr(v), 'got': repr(got),
                             'expected': exp})
    else:
        check('lower', base.lower(), 'lower')
        check('upper', base.upper(), 'upper')
        check('capitalize', base.capitalize(), 'capitalize')
        check('spacify', base.replace('_', ' '), 'spacify')
        check('sql_quote', sql_ref(base), 'sql_quote')
        if NUMERIC.match(base):
            check('thousands_commas', commas(base), 'thousands_commas')
        if isinstance(v, int) and not isinstance(v, bool):
            check('thousands_commas', format(v, ','), 'thousands_commas')
        out = rend(tag(['sql_quote']), x=v)
        if out[0] == 'ok' and isinstance(out[1], str):
            o = out[1]
            runs = re.findall(r"'+", o)
            if any(c in o for c in '\x00\x1a\r') or \
                    any(len(r) % 2 for r in runs):
                res.violate('law', 'law:sql_quote-safe:%s' % kind,
                            {'value': repr(v), 'got': o})
    res.evals = n
    res.nt_count = nt
    res.sample = {'value': repr(v), 'options': 'each single modifier'}


def run_round(res, case):
    """url_unquote inverts url_quote, through two templates."""
    s = value_by_id(case['value'])
    n = 0
    for q, u in (('url_quote', 'url_unquote'),
                 ('url_quote_plus', 'url_unquote_plus')):
        for val in (s, s.encode('utf-8')):
            a = rend(tag([q]), x=val)
            n += 1
            if a[0] != 'ok':
                res.violate('law', 'law:%s:exc' % q, {'value': repr(val),
                                                      'got': repr(a)})
                continue
            b = rend(tag([u]), x=a[1])
            n += 1
            if not same_out(b, ('ok', val)):
                res.violate('law', 'law:%s-inverts-%s:%s%s' % (
                    u, q, 'bytes' if isinstance(val, bytes) else 'str',
                    ':has-percent' if '%' in s else ''),
                    {'value': repr(val), 'quoted': repr(a[1]),
                     'unquoted': repr(b)})
    res.evals = n
    res.nt_count = n if re.search(r'[^A-Za-z0-9_.~-]', s) else 0
    res.sample = {'value': s, 'round-trip': 'url_quote -> url_unquote'}


# ---------------------------------------------------------------- trunc

ETCS = [(None, '...'), ('etc=""', ''), ('etc=">>"', '>>'),
        # texts with blanks at their edges are texts
        ('etc=" .."', ' ..'), ('etc="~ "', '~ '), ('etc=" "', ' ')]


def trunc_ref(s, size, etc):
    """-> set of acceptable results"""
    blank = b' ' if isinstance(s, bytes) else ' '
    if isinstance(s, bytes):
        etc = etc.encode('utf-8')
    if len(s) <= size:
        return {s}
    cut = s[:size]
    pos = cut.rfind(blank)
    if pos > size / 2:
        # "cut back to the last blank": with or without the blank itself
        return {cut[:pos + 1] + etc, cut[:pos] + etc}
    return {cut + etc}


def run_trunc(res, case):
    s = value_by_id(case['value'])
    kind = case['value'].split(':')[0]
    n = nt = 0
    for size in range(0, len(s) + 3):
        for attr, etc in ETCS:
            opts = ['size=%d' % size] + ([attr] if attr else [])
            for o in (opts, opts[::-1]):
                got = rend(tag(o), x=s)
                n += 1
                ok = trunc_ref(s, size, etc)
                if len(s) > size:
                    nt += 1
                if got[0] != 'ok' or not any(same_out(got, ('ok', x))
                                             for x in ok):
                    if got[0] == 'exc':
                        sig = 'trunc:exc:%s:%s' % (got[1], kind)
                    elif len(s) <= size:
                        sig = 'trunc:short-value-changed:%s' % kind
                    else:
                        sig = 'trunc:cut:%s' % kind
                    res.violate('truncation', sig,
                                {'value': repr(s), 'options': o,
                                 'got': repr(got), 'accepted': sorted(
                                     map(repr, ok))})
    res.evals = n
    res.nt_count = nt
    res.sample = {'value': repr(s), 'sizes': [0, len(s) + 2]}


# ---------------------------------------------------------------- stage

def run_stage(res, case):
    vid = case['value']
    v = value_by_id(vid)
    kind = vid.split(':')[0].rstrip('0123456789-')
    fmts = [None]
    if isinstance(v, int):
        fmts += ['fmt="%05d"', 'fmt=whole-dollars', 'fmt=dollars-and-cents']
    if isinstance(v, float):
        fmts += ['fmt="%.1f"', 'fmt=dollars-and-cents']
    if isinstance(v, WithMethod):
        fmts += ['fmt=m']
    if isinstance(v, (str, bytes, list, dict)):
        fmts += ['fmt=collection-length']
    if isinstance(v, str):
        fmts += ['fmt=upper', 'fmt="[%s]"']
    cfmts = ['s', '14s', '.3s']
    if isinstance(v, int):
        cfmts += ['05d']
    mods = [None] + MODS
    sizes = [None, 'size=4', 'size=9 etc="~"']
    n = nt = 0
    for f, c, m, s in itertools.product(fmts, cfmts, mods, sizes):
        stages = sum(x is not None for x in (f, m, s)) + (c != 's')
        if stages < 2:
            continue
        epfs = c != 's'
        if f and '%' in f and epfs:
            continue                     # '%' inside an EPFS tag: not a tag
        opts = [o for o in (f, m, s) if o]
        got = rend(tag(opts, epfs, c), epfs, x=v)
        n += 1
        # composition of single-stage renderings
        cur = ('ok', v)
        plan = []
        if f:
            plan.append(([f], False, 's'))
        if c != 's':
            plan.append(([], True, c))
        if m:
            plan.append(([m], False, 's'))
        if s:
            plan.append(([s], False, 's'))
        for o, e, cf in plan:
            if cur[0] == 'exc':
                break
            cur = rend(tag(o, e, cf), e, x=cur[1])
        nt += 1
        same = got == cur
        if not same and got[0] == 'ok' and cur[0] == 'ok':
            # a single-stage template returns a non-string value as it is
            same = as_text(got[1]) == as_text(cur[1])
        if not same:
            res.violate('stage-order', 'stage:%s:%s' % (
                '>'.join(x for x, y in (('fmt', f), ('cfmt', c != 's'),
                                        (m or 'mod', m), ('size', s)) if y),
                kind),
                {'value': repr(v), 'tag': tag(opts, epfs, c),
                 'got': repr(got), 'composition': repr(cur)})
    res.evals = n
    res.nt_count = nt
    res.sample = {'value': repr(v), 'tag': tag(['fmt=x', 'upper', 'size=4'])}


# ---------------------------------------------------------------- null

def is_null(v):
    return v is None or (not v and v != 0)


def run_null(res, case):
    vid = case['value']
    v = value_by_id(vid)
    kind = vid.split(':')[0].rstrip('0123456789-')
    n = nt = 0
    extras = [[], ['upper'], ['size=1'], ['fmt="%s!"'], ['html_quote'],
              ['upper', 'size=1', 'spacify']]
    for NT, MT in (('N_n', 'M_m'), (' n/a ', ' (none) '), ('\tq', 'm\n')):
      for extra in extras:
          # null (NT / MT: the replacement texts, also with white space at
          # their edges -- they are inserted as written)
          for opts in (['null="%s"' % NT] + extra, extra + ['null="%s"' % NT]):
              got = rend(tag(opts), x=v)
              n += 1
              if is_null(v):
                  nt += 1
                  if got != ('ok', NT):
                      res.violate('null', 'null:not-applied:%s' % kind,
                                  {'value': repr(v), 'options': opts,
                                   'got': repr(got)})
              else:
                  plain = rend(tag(extra), x=v)
                  if as_text(got[1]) != as_text(plain[1]) or got[0] != plain[0]:
                      res.violate('null', 'null:applied-to-value:%s' % kind,
                                  {'value': repr(v), 'options': opts,
                                   'got': repr(got), 'without': repr(plain)})
          # missing: the name y is undefined, x is defined
          for opts in (['missing="%s"' % MT] + extra, extra + ['missing="%s"' % MT]):
              got = rend(tag(opts, name='y'), x=v)
              n += 1
              nt += 1
              if got != ('ok', MT):
                  res.violate('missing', 'missing:not-applied',
                              {'options': opts, 'got': repr(got)})
              got = rend(tag(opts), x=v)
              plain = rend(tag(extra), x=v)
              n += 1
              if got[0] != plain[0] or as_text(got[1]) != as_text(plain[1]):
                  res.violate('missing', 'missing:applied-to-defined:%s' % kind,
                              {'value': repr(v), 'options': opts,
                               'got': repr(got), 'without': repr(plain)})
          got = rend(tag(extra, name='y'), x=v)
          n += 1
          if got != ('exc', 'KeyError'):
              res.violate('missing', 'missing:undefined-without-missing',
                          {'options': extra, 'got': repr(got)})
    res.evals = n
    res.nt_count = nt
    res.sample = {'value': repr(v), 'tag': tag(['null="%s"' % NT, 'upper'])}


def run_cfmt(res, case):
    """the C-style format stage formats the value itself: '%<fmt>' % (v,)"""
    n = 0
    for vid, v in all_values():
        if isinstance(v, bytes):
            continue
        for c in ('5s', '.3s', '12s', '1s', '12.5s'):
            try:
                want = ('ok', ('%' + c) % (v,))
            except Exception as e:
                want = ('exc', type(e).__name__)
            if v is None or (not v and v != 0):
                pass        # no null= given: None is formatted as well
            got = rend(tag([], True, c), True, x=v)
            n += 1
            if got != want:
                res.violate('law', 'law:cfmt:%s' % vid.split(':')[0].rstrip(
                    '0123456789-'), {'value': repr(v), 'tag': tag([], True, c),
                                     'got': repr(got), 'expected': repr(want)})
    res.evals = n
    res.nt_count = n
    res.sample = {'tag': '%(x)5s', 'law': "'%5s' % (value,)"}


# ---------------------------------------------------------------- fmt

FMT_PCT = ['%s!', '[%s]', '%5s|', '%-5s|', '%.3s', '%d', '%05d', '%.2f', '%x',
           '%e', '%r', '%%', '%s and %s', 'plain words', '%', '%q']
FMT_METHODS = ['m', 'upper', 'lower', 'title', 'strip', 'swapcase',
               'capitalize', 'bit_length', 'is_integer', 'hex', 'copy',
               'keys', 'isoformat']
FMT_SAME_AS_MODIFIER = {'sql-quote': 'sql_quote', 'html-quote': 'html_quote',
                        'url-quote': 'url_quote',
                        'url-quote-plus': 'url_quote_plus',
                        'url-unquote': 'url_unquote',
                        'url-unquote-plus': 'url_unquote_plus',
                        'multi-line': 'newline_to_br',
                        'comma-numeric': 'thousands_commas'}


def _outcome(f):
    try:
        return ('ok', f())
    except Exception as e:
        return ('exc', type(e).__name__)


def _dollars(v, pattern, grouped):
    try:
        pattern % v
    except Exception:
        return ''
    if grouped:
        return '$' + format(int(v) if pattern == '$%d' else v,
                            ',d' if pattern == '$%d' else ',.2f')
    return pattern % v


def run_fmt(res, case):
    """the fmt= stage on its own, against what it is documented to be: a
    method of the value is called, a %-format is applied to the value, the
    named formats are the dollar / length formats or the like-named
    modifier.  With null= (and a non-null value) the result is the same."""
    n = nt = 0
    for vid, v in all_values():
        kind = vid.split(':')[0].rstrip('0123456789-')
        null = v is None or (not v and v != 0)
        plans = []
        if not isinstance(v, (tuple, dict)):
            for f in FMT_PCT:
                plans.append(('pct', 'fmt="%s"' % f,
                              _outcome(lambda: f % v), False))
        for f in FMT_METHODS:
            if callable(getattr(v, f, None)):
                plans.append(('method', 'fmt=%s' % f,
                              _outcome(lambda: getattr(v, f)()), True))
        if not isinstance(v, (tuple, dict)):
            for f, pat, grouped in (
                    ('whole-dollars', '$%d', False),
                    ('dollars-and-cents', '$%.2f', False),
                    ('dollars-with-commas', '$%d', True),
                    ('dollars-and-cents-with-commas', '$%.2f', True)):
                plans.append(('special', 'fmt=' + f,
                              ('ok', _dollars(v, pat, grouped)), True))
        plans.append(('special', 'fmt=collection-length',
                      _outcome(lambda: str(len(v))), True))
        for f, m in FMT_SAME_AS_MODIFIER.items():
            if not isinstance(v, (str, bytes)):
                break       # the format receives the value, not its text
            plans.append(('as-modifier', 'fmt=' + f, rend(tag([m]), x=v),
                          True))
        for what, opt, want, in_epfs in plans:
            if want[0] == 'ok':
                want = ('ok', as_text(want[1]))
            variants = [(tag([opt]), False, want)]
            if in_epfs:
                variants.append((tag([opt], True), True, want))
            variants.append((tag([opt, 'null="N_n"']), False,
                             ('ok', 'N_n') if null else want))
            variants.append((tag(['null="N_n"', opt]), False,
                             ('ok', 'N_n') if null else want))
            for src, epfs, exp in variants:
                got = rend(src, epfs, x=v)
                n += 1
                nt += 1
                if got[0] == 'ok':
                    got = ('ok', as_text(got[1]))
                if got != exp and not same_out(got, exp):
                    res.violate('fmt', 'fmt:%s:%s:%s' % (
                        what, opt.split('=')[1].strip('"') if what != 'pct'
                        else 'pct', kind),
                        {'value': repr(v), 'source': src, 'got': repr(got),
                         'expected': repr(exp)})
    res.evals = n
    res.nt_count = nt
    res.sample = {'tag': tag(['fmt="%05d"']), 'law': "'%05d' % value"}


def run_defined_raises(res, case):
    """missing= is for *undefined* names only: a defined name whose callable
    (or sub-template) raises, also a KeyError, propagates that error"""
    from DocumentTemplate import HTML
    n = 0

    def kerr(arg):
        def f():
            raise KeyError(arg)
        return f

    def other():
        raise ValueError('v')
    values = [('callable-KeyError-own-name', kerr('x'), 'KeyError'),
              ('callable-KeyError-other', kerr('elsewhere'), 'KeyError'),
              ('callable-ValueError', other, 'ValueError'),
              ('template-undefined-inside', HTML('<dtml-var nowhere>'),
               'KeyError'),
              ('callable-ok', lambda: 'fine', None)]
    for opts in (['missing="M_m"'], ['missing="M_m"', 'null="N"'],
                 ['upper', 'missing="M_m"'], ['missing'],
                 ['missing="M_m"', 'size=3']):
        for src in (tag(opts), '<dtml-var name=x %s>' % ' '.join(opts),
                    tag(opts, epfs=True)):
            for label, v, exc in values:
                got = rend(src, epfs=src.startswith('%'), x=v)
                n += 1
                want_exc = ('exc', exc)
                if (exc and got != want_exc) or \
                        (not exc and got[0] != 'ok'):
                    res.violate('missing', 'missing:swallows-error:%s'
                                % label, {'source': src, 'got': repr(got),
                                          'expected': repr(want_exc)})
    res.evals = n
    res.nt_count = n
    res.sample = {'tag': tag(['missing="M_m"']), 'value': 'callable that '
                  'raises KeyError'}


RUNNERS = {'fmt': run_fmt, 'cfmt': run_cfmt, 'defraise': run_defined_raises, 'perm': run_perm, 'law': run_law, 'commas': run_commas, 'round': run_round,
           'trunc': run_trunc, 'stage': run_stage, 'null': run_null}


def run(case):
    res = Res()
    RUNNERS[case['fam']](res, case)
    res.outcome = case['fam']
    return res


def finalize(tier, agg):
    if len(agg['outcomes']) < 6:
        raise HarnessFault('vacuous: a family did not run')
    if trunc_ref('abcdefgh ij', 10, '...') != {'abcdefgh ...', 'abcdefgh...'}:
        raise HarnessFault('self-test: truncation model')
    if trunc_ref('ab cdefghij', 8, '.') != {'ab cdefg.'}:
        raise HarnessFault('self-test: truncation model (first half)')
    return {'families': dict(agg['outcomes'])}
