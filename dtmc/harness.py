"""Run an abstract template on the implementation and on the reference
interpreter and turn both into comparable observations."""

from . import ast
from . import refsem
from .core import CaseTimeout
from .probes import HQ
from .probes import PullBudget
from .probes import World


def norm_value(v):
    if isinstance(v, str):
        return v
    return '%s:%r' % (type(v).__name__, v)


def norm_exc(exc):
    return [type(exc).__name__, refsem.exception_text(exc)]


def observe_impl(nodes, ns, syntax='dtml', style=None, faults=None,
                 source=None, call=None):
    """-> dict(kind='ok'|'exc', value=..., log=[...])"""
    world = World('impl', syntax, style, faults)
    built = world.build_ns(ns)
    cls = ast.template_class(syntax)
    src = source if source is not None else ast.to_source(nodes, syntax, style)
    try:
        t = cls(src)
        if call is not None:
            r = call(t, built, world)
        else:
            r = t(**built)
        obs = {'kind': 'ok', 'value': norm_value(r)}
    except (CaseTimeout, PullBudget):
        raise
    except (Exception, HQ) as exc:
        obs = {'kind': 'exc', 'value': norm_exc(exc)}
    obs['log'] = world.log
    obs['source'] = src
    return obs


def observe_ref(nodes, ns, faults=None, call=None):
    world = World('ref', faults=faults)
    built = world.build_ns(ns)
    interp = refsem.Interp()
    try:
        if call is not None:
            r = call(interp, nodes, built, world)
        else:
            r = interp.call_top(nodes, kw=built)
        obs = {'kind': 'ok', 'value': norm_value(r)}
    except CaseTimeout:
        raise
    except (Exception, HQ) as exc:
        obs = {'kind': 'exc', 'value': norm_exc(exc)}
    obs['log'] = world.log
    obs['unspec'] = interp.unspec
    if interp.unspec and obs['kind'] == 'ok' and '<UNSPEC>' not in obs['value']:
        # an unspecified value influenced control flow only
        pass
    return obs


def same(impl, ref, compare_log=True):
    """None if the observations agree, else a short reason."""
    if impl['kind'] != ref['kind']:
        return 'kind'
    if impl['value'] != ref['value']:
        return 'value'
    if compare_log and impl['log'] != ref['log']:
        return 'calls'
    return None
