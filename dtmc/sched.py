"""Deterministic thread scheduler + preemption-bounded explorer (CHESS style).

Worker bodies run in real threading.Threads, but only the thread that holds
the *baton* (one semaphore per thread) ever executes.  A scheduling point is
every `line` event (sys.settrace) in a frame whose code lives under one of
the traced source prefixes; at a point the scheduler consults the schedule
(a sparse map point-index -> index into the canonical list of enabled
threads; default 0 = keep running the current thread) and hands the baton
over if another thread is chosen.

Reduction (checked per execution, not assumed): frames whose `self` is an
instance of a per-render class first touched by the running thread are not
traced; if a second thread ever touches such an object the class is
reported in `Execution.shared_local` and the frame is traced after all.

SchedLock replaces threading.Lock in the code under test: acquire is a
scheduling point, a thread blocked on it is disabled, "no enabled thread" is
a deadlock verdict.
"""

import os
import sys
import threading

HORIZON = 200000


class ReplayDivergence(Exception):
    pass


class SchedLock:
    """Scheduler-aware replacement for threading.Lock (context manager)."""

    def __init__(self):
        self.owner = None
        self.exe = None

    def bind(self, exe):
        self.exe = exe
        self.owner = None

    def acquire(self, blocking=True, timeout=-1):
        exe = self.exe
        i = exe.current_index() if exe is not None else None
        if i is None:                       # not under the scheduler
            self.owner = 'outside'
            return True
        exe.point(i, ('lock-acquire', 0))
        if not blocking:
            # try-lock: answers at once
            if self.owner is not None:
                return False
            self.owner = i
            return True
        while self.owner is not None:
            exe.block(i, self)
        self.owner = i
        return True

    def release(self):
        exe = self.exe
        self.owner = None
        if exe is not None:
            exe.unblock(self)

    def locked(self):
        return self.owner is not None

    __enter__ = acquire

    def __exit__(self, *a):
        self.release()


class Execution:
    def __init__(self, bodies, choices, prefixes, local_classes=(),
                 opcode_lines=False):
        self.bodies = bodies
        self.n = len(bodies)
        self.choices = dict(choices)
        self.prefixes = tuple(prefixes)
        self.local_classes = set(local_classes)
        self.sems = [threading.Semaphore(0) for _ in range(self.n)]
        self.done = [False] * self.n
        self.blocked = [None] * self.n
        self.results = [None] * self.n
        self.trace = []          # (current or None, enabled tuple, chosen,
        #                           loc, current_enabled)
        self.finished = threading.Event()
        self.deadlock = False
        self.horizon = False
        self.error = None
        self.idents = {}
        self.owners = {}
        self.shared_local = set()
        self.steps = [0] * self.n
        self.max_choice = max(self.choices) if self.choices else -1
        # optional state invariant, evaluated at every scheduling point:
        # on_point(thread index, loc) -> None or a description of a violation
        self.on_point = None
        self.invariant_violation = None

    # -- identity
    def current_index(self):
        return self.idents.get(threading.get_ident())

    # -- tracing
    def tracer(self, i):
        prefixes = self.prefixes
        local_classes = self.local_classes
        owners = self.owners
        exe = self

        def local_trace(frame, event, arg):
            if event == 'line':
                exe.steps[i] += 1
                code = frame.f_code
                exe.point(i, (os.path.basename(code.co_filename),
                              frame.f_lineno, code.co_name))
            return local_trace

        def global_trace(frame, event, arg):
            if event != 'call':
                return None
            fn = frame.f_code.co_filename
            if not fn.startswith(prefixes):
                return None
            slf = frame.f_locals.get('self')
            if slf is not None:
                cname = type(slf).__name__
                if cname in local_classes:
                    rec = owners.get(id(slf))
                    if rec is None:
                        owners[id(slf)] = (slf, i)   # keeps the id alive
                        return None
                    if rec[1] == i:
                        return None
                    exe.shared_local.add(cname)
            return local_trace
        return global_trace

    # -- scheduling
    def enabled_from(self, cur):
        en = [j for j in range(self.n)
              if not self.done[j] and self.blocked[j] is None]
        if cur is not None and cur in en:
            en.remove(cur)
            en.insert(0, cur)
        return en

    def decide(self, cur, loc):
        en = self.enabled_from(cur)
        idx = len(self.trace)
        if not en:
            return None
        c = self.choices.get(idx, 0)
        if c >= len(en):
            self.error = ReplayDivergence(
                'choice %d at point %d but only %d enabled' % (c, idx,
                                                               len(en)))
            c = 0
        cur_enabled = cur is not None and en[0] == cur
        self.trace.append((cur, tuple(en), c, loc, cur_enabled))
        if len(self.trace) > HORIZON:
            self.horizon = True
        return en[c]

    def switch(self, i, nxt):
        if nxt is None:
            self.deadlock = not all(self.done)
            self.finished.set()
            if not self.done[i]:
                self.sems[i].acquire()       # parks forever (daemon)
            return
        if nxt != i:
            self.sems[nxt].release()
            if not self.done[i]:
                self.sems[i].acquire()

    def point(self, i, loc):
        if self.horizon:
            return
        if self.on_point is not None and self.invariant_violation is None:
            bad = self.on_point(i, loc)
            if bad:
                self.invariant_violation = (i, loc, bad)
        # points with a single enabled thread carry no choice: skip quickly
        others = False
        for j in range(self.n):
            if j != i and not self.done[j] and self.blocked[j] is None:
                others = True
                break
        if not others:
            return
        nxt = self.decide(i, loc)
        self.switch(i, nxt)

    def block(self, i, lock):
        self.blocked[i] = lock
        nxt = self.decide(i, ('blocked', 0))
        self.switch(i, nxt)

    def unblock(self, lock):
        for j in range(self.n):
            if self.blocked[j] is lock:
                self.blocked[j] = None

    def worker(self, i):
        self.sems[i].acquire()
        self.idents[threading.get_ident()] = i
        sys.settrace(self.tracer(i))
        try:
            try:
                r = ('ok', self.bodies[i]())
            except Exception as e:
                r = ('exc', type(e).__name__, str(e)[:200])
        finally:
            sys.settrace(None)
        self.results[i] = r
        self.done[i] = True
        en = self.enabled_from(None)
        if not en:
            self.deadlock = not all(self.done)
            self.finished.set()
            return
        # a finished thread hands over without a preemption; if several are
        # enabled this is a (free) choice point
        nxt = self.decide(None, ('thread-exit', i))
        self.sems[nxt].release()

    def run(self, timeout=60.0):
        threads = [threading.Thread(target=self.worker, args=(i,),
                                    daemon=True) for i in range(self.n)]
        for t in threads:
            t.start()
        first = self.decide(None, ('start', 0))
        self.sems[first].release()
        if not self.finished.wait(timeout):
            self.error = self.error or TimeoutError('execution timed out')
        for t in threads:
            t.join(0.5 if self.deadlock or self.error else 5.0)
        if self.error is None and self.max_choice >= len(self.trace):
            self.error = ReplayDivergence(
                'schedule names point %d but the execution has only %d'
                % (self.max_choice, len(self.trace)))
        return self

    # -- helpers for the explorer
    def preemptions(self):
        """cumulative preemption count before each point"""
        out, k = [], 0
        for cur, en, c, loc, cur_enabled in self.trace:
            out.append(k)
            if cur_enabled and c != 0:
                k += 1
        return out, k

    def switches(self):
        return [(loc, en[c]) for cur, en, c, loc, ce in self.trace
                if c != 0]


def explore(make_bodies, bound, prefixes, local_classes, check,
            first_alternatives=None, budget=None, shard=None,
            preempt_files=None):
    """Iterative preemption bounding.

    make_bodies() -> list of zero-argument callables (fresh state each time)
    check(execution) is called for every completed execution.
    shard = (k, n): only the sub-trees whose first deviation index % n == k
    (the deviation-free execution is run by every shard).
    preempt_files: if given, preemptions (switching away from a runnable
    thread) are explored only at lines of these source files; switches at
    thread exit / lock blocking are always explored.
    Returns statistics.
    """
    stats = {'schedules': 0, 'points_max': 0, 'bound': bound,
             'complete': True, 'deadlocks': 0, 'steps_per_thread': None}
    stack = [({}, 0)]
    while stack:
        choices, start = stack.pop()
        exe = Execution(make_bodies(), choices, prefixes, local_classes).run()
        stats['schedules'] += 1
        stats['points_max'] = max(stats['points_max'], len(exe.trace))
        if stats['steps_per_thread'] is None:
            stats['steps_per_thread'] = list(exe.steps)
        if exe.deadlock:
            stats['deadlocks'] += 1
        check(exe, choices)
        if exe.error is not None:
            continue
        pre, _ = exe.preemptions()
        for i in range(start, len(exe.trace)):
            cur, en, c, loc, cur_enabled = exe.trace[i]
            if len(en) < 2:
                continue
            if shard is not None and not choices and i % shard[1] != shard[0]:
                continue
            cost = pre[i] + (1 if cur_enabled else 0)
            if cost > bound:
                continue
            if cur_enabled and preempt_files is not None and \
                    loc[0] not in preempt_files:
                continue        # stated bound: preemption sites restricted
            for alt in range(1, len(en)):
                nc = dict(choices)
                nc[i] = alt
                stack.append((nc, i + 1))
        if budget is not None and stats['schedules'] >= budget:
            stats['complete'] = not stack
            break
    return stats
