"""Abstract DTML syntax (plain JSON-able lists) and the three printers.

Nodes
    ["text", s]
    ["var", ref, opts]            opts: [[key, value-or-None], ...]
    ["ent", name, mods]           &dtml-name; / &dtml.m1.m2-name;
    ["call", ref]
    ["if", [[ref, body], ...], else_body-or-None]
    ["unless", ref, body]
    ["elseblk", ref, body]        deprecated stand-alone <dtml-else name> block
    ["in", ref, body, else_body-or-None, opts]
    ["with", ref, body, flags]    flags: subset of ["mapping", "only"]
    ["let", [[name, ref], ...], body]
    ["try", body, [[names, body], ...], else_body-or-None]
    ["tryf", body, finally_body]
    ["raise", tref, body]         tref: ["t", typename] | ["e", src]
    ["return", ref]
    ["comment", body]
    ["tree", ref, body, opts]
ref: ["n", name] | ["e", python-source]
A body is a list of nodes.

Printers: syntax in {'dtml', 'ssi', 'epfs'}; `style` is a dict
    ws      0: one blank, 1: two blanks, 2: newline, 3: trailing blank,
            4: tab, 5: CR LF, 6: form feed, 7: CR, 8: vertical tab, 9: \x1f
    quote   0: a=b where possible, 1: a="b"
    endarg  0: bare end tag, 1: end tag repeats the name argument
    ssiend  0: <!--#/tag-->, 1: <!--#endtag-->
    exprkw  0: "src" shorthand, 1: expr="src"
    eol     0: nothing, 1: newline after every block open/continuation/close
"""

SYNTAXES = ('dtml', 'ssi', 'epfs')
DEFAULT_STYLE = {'ws': 0, 'quote': 0, 'endarg': 0, 'ssiend': 0, 'exprkw': 0,
                 'eol': 0}


def T(s):
    return ['text', s]


def N(name):
    return ['n', name]


def E(src):
    return ['e', src]


def _sep(style):
    # 4..9: the other characters the tag grammar counts as white space
    return (' ', '  ', '\n', ' ', '\t', '\r\n', '\x0c', '\r', '\x0b',
            '\x1f')[style.get('ws', 0)]


def _ref(ref, style, attr='name'):
    kind, v = ref
    if kind == 'n':
        return v
    if kind == 't':
        return 'type=%s' % v if style.get('quote') == 0 and v.isalnum() \
            else 'type="%s"' % v
    if style.get('exprkw'):
        return 'expr="%s"' % v
    return '"%s"' % v


def _needs_quote(v):
    v = str(v)
    return v == '' or any(c in v for c in ' \t\n="<>') or v[0] == '"'


def _opts(opts, style):
    out = []
    for k, v in opts:
        if v is None:
            out.append(k)
        elif style.get('quote') or _needs_quote(v):
            out.append('%s="%s"' % (k, v))
        else:
            out.append('%s=%s' % (k, v))
    return out


class Printer:
    def __init__(self, syntax, style=None):
        self.syntax = syntax
        self.style = dict(DEFAULT_STYLE)
        if style:
            self.style.update(style)
        # start offsets of every tag emitted (for the conservative lexer)
        self.tag_spans = []
        self.parts = []
        self.pos = 0

    # -- low level
    def emit(self, s, is_tag=False, block_edge=False):
        if is_tag:
            self.tag_spans.append((self.pos, self.pos + len(s), block_edge))
        self.parts.append(s)
        self.pos += len(s)

    def tag(self, name, args, kind, fmt='s'):
        """kind: 'single' | 'open' | 'cont' | 'close'"""
        st = self.style
        sep = _sep(st)
        inner = name
        args = [a for a in args if a != '']
        if args:
            inner += sep + sep.join(args)
        if st.get('ws') == 3:
            inner += ' '
        sx = self.syntax
        if sx == 'dtml':
            s = ('</dtml-%s>' if kind == 'close' else '<dtml-%s>') % inner
        elif sx == 'ssi':
            if kind == 'close':
                s = ('<!--#end%s-->' if st.get('ssiend') else
                     '<!--#/%s-->') % inner
            else:
                s = '<!--#%s-->' % inner
        else:
            f = {'single': fmt, 'open': '[', 'cont': '[', 'close': ']',
                 'bang': '!'}[kind]
            s = '%%(%s)%s' % (inner, f)
        edge = kind in ('open', 'cont', 'close')
        self.emit(s, True, edge)
        if edge and st.get('eol'):
            self.emit('\n')

    def endargs(self, ref, cont=False):
        ea = self.style.get('endarg')
        if cont and ea == 2:
            ea = 1      # continuation tags repeat names only
        if ea and ref is not None and ref[0] == 'n':
            return [ref[1]]
        if ea == 2 and ref is not None and ref[0] == 'e':
            # the end tag repeats the expression exactly as the start tag
            return [_ref(ref, self.style)]
        return []

    # -- nodes
    def body(self, nodes):
        for n in nodes:
            self.node(n)

    def node(self, n):
        k = n[0]
        st = self.style
        if k == 'text':
            self.emit(n[1])
        elif k == 'var':
            ref, opts = n[1], n[2]
            fmt = 's'
            o2 = []
            for kk, vv in opts:
                if kk == '__cfmt__':
                    fmt = vv
                else:
                    o2.append([kk, vv])
            if self.syntax == 'epfs':
                if fmt != 's' or ref[0] == 'n' and not st.get('varkw'):
                    # %(name opts)fmt -- bare form
                    if ref[0] == 'n':
                        self.tag(ref[1], _opts(o2, st), 'single', fmt)
                    else:
                        self.tag('var', [_ref(ref, st)] + _opts(o2, st),
                                 'single', fmt)
                else:
                    self.tag('var', [_ref(ref, st)] + _opts(o2, st),
                             'single', fmt)
            else:
                if fmt != 's':
                    raise ValueError('C-style format needs EPFS syntax')
                self.tag('var', [_ref(ref, st)] + _opts(o2, st), 'single')
        elif k == 'ent':
            name, mods = n[1], n[2]
            if mods == ['html_quote']:
                self.emit('&dtml-%s;' % name, True)
            else:
                self.emit('&dtml.%s-%s;' % ('.'.join(mods), name), True)
        elif k == 'call':
            self.tag('call', [_ref(n[1], st)],
                     'bang' if self.syntax == 'epfs' else 'single')
        elif k == 'return':
            self.tag('return', [_ref(n[1], st)],
                     'bang' if self.syntax == 'epfs' else 'single')
        elif k == 'if':
            branches, els = n[1], n[2]
            first = branches[0][0]
            for i, (ref, body) in enumerate(branches):
                self.tag('if' if i == 0 else 'elif', [_ref(ref, st)],
                         'open' if i == 0 else 'cont')
                self.body(body)
            if els is not None:
                self.tag('else', self.endargs(first, True), 'cont')
                self.body(els)
            self.tag('if', self.endargs(first), 'close')
        elif k == 'elseblk':
            # deprecated stand-alone "else NAME" block (behaves like unless)
            self.tag('else', [_ref(n[1], st)], 'open')
            self.body(n[2])
            self.tag('else', self.endargs(n[1]), 'close')
        elif k == 'unless':
            self.tag('unless', [_ref(n[1], st)], 'open')
            self.body(n[2])
            self.tag('unless', self.endargs(n[1]), 'close')
        elif k == 'in':
            ref, body, els, opts = n[1], n[2], n[3], n[4]
            self.tag('in', [_ref(ref, st)] + _opts(opts, st), 'open')
            self.body(body)
            if els is not None:
                self.tag('else', self.endargs(ref, True), 'cont')
                self.body(els)
            self.tag('in', self.endargs(ref), 'close')
        elif k == 'with':
            ref, body, flags = n[1], n[2], n[3]
            self.tag('with', [_ref(ref, st)] + list(flags), 'open')
            self.body(body)
            self.tag('with', self.endargs(ref), 'close')
        elif k == 'let':
            args = []
            for name, ref in n[1]:
                if ref[0] == 'n':
                    args.append('%s=%s' % (name, ref[1]))
                else:
                    args.append('%s="%s"' % (name, ref[1]))
            self.tag('let', args, 'open')
            self.body(n[2])
            self.tag('let', [], 'close')
        elif k == 'try':
            body, handlers, els = n[1], n[2], n[3]
            self.tag('try', [], 'open')
            self.body(body)
            for names, hbody in handlers:
                self.tag('except', list(names), 'cont')
                self.body(hbody)
            if els is not None:
                self.tag('else', [], 'cont')
                self.body(els)
            self.tag('try', [], 'close')
        elif k == 'tryf':
            self.tag('try', [], 'open')
            self.body(n[1])
            self.tag('finally', [], 'cont')
            self.body(n[2])
            self.tag('try', [], 'close')
        elif k == 'raise':
            self.tag('raise', [_ref(n[1], st)], 'open')
            self.body(n[2])
            self.tag('raise', [], 'close')
        elif k == 'tree':
            ref, body, opts = n[1], n[2], n[3]
            self.tag('tree', [_ref(ref, st)] + _opts(opts, st), 'open')
            self.body(body)
            self.tag('tree', [], 'close')
        elif k == 'comment':
            self.tag('comment', [], 'open')
            self.body(n[1])
            self.tag('comment', [], 'close')
        else:
            raise ValueError('unknown node %r' % (k,))

    def result(self):
        return ''.join(self.parts)


def to_source(nodes, syntax='dtml', style=None):
    p = Printer(syntax, style)
    p.body(nodes)
    return p.result()


def to_source_spans(nodes, syntax='dtml', style=None):
    p = Printer(syntax, style)
    p.body(nodes)
    return p.result(), p.tag_spans


def template_class(syntax):
    from DocumentTemplate import HTML
    from DocumentTemplate import String
    return String if syntax == 'epfs' else HTML


def count_tags(nodes):
    n = 0
    for x in nodes:
        k = x[0]
        if k == 'text':
            continue
        n += 1
        if k == 'if':
            for _, b in x[1]:
                n += count_tags(b)
            if x[2] is not None:
                n += count_tags(x[2])
        elif k in ('unless', 'with', 'raise', 'tree', 'elseblk'):
            n += count_tags(x[2])
        elif k == 'in':
            n += count_tags(x[2])
            if x[3] is not None:
                n += count_tags(x[3])
        elif k == 'let':
            n += count_tags(x[2])
        elif k == 'try':
            n += count_tags(x[1])
            for _, b in x[2]:
                n += count_tags(b)
            if x[3] is not None:
                n += count_tags(x[3])
        elif k == 'tryf':
            n += count_tags(x[1]) + count_tags(x[2])
        elif k == 'comment':
            n += count_tags(x[1])
    return n
